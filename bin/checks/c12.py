"""C12 — k-means: centroids are cluster means, rows go to the nearest centroid, the BBD-tree
filtering step equals exhaustive search.  DESIGN.md §3 C12.

Design models (TLC, exhaustive on small lattices):
  cluster/Lloyd.tla       KMeans::fit (k-means++ seeding, Lloyd loop, early stop) with the assignment
                          step abstracted to its contract; invariant = KMeansProps fit clause
  cluster/BbdFilter.tla   BBDTree::build_node / clustering / filter / prune / node_cost in exact
                          arithmetic; invariant = KMeansProps filtering clause (+ tree well-formedness,
                          pruning invariant)
Binding:
  impl -> spec   `c12 gen-fit`, `c12 gen-bbd`: real fits / predicts / filtering steps recorded and
                 validated by cluster/KMeansTrace.tla with the same KMeansProps operators
  spec -> impl   terminal states of BbdFilter.tla (REPLAY lines) are pushed through the real tree by
                 `c12 replay-spec`; predicates decide, differences from the model count as MODEL-DRIFT
"""
import json
import os

import vlib

LEVEL = "model_checking"

RULE = ("KMeans::fit + predict on every 1-D data set of 2..5 rows over {0..4} (k=2, max_iter 1..3, repeated: "
        "the seeding is unseeded) and on seeded random data sets of 2..120 (thorough: ..300) rows, 1..6 "
        "dimensions: lattice, integer blobs, few distinct rows replicated, continuous uniform / blobs, "
        "single precision; k in 2..8 with at least k distinct rows, max_iter in {1,2,3,5,10,30,100}, R "
        "repeated fits per data set; outlier families (one isolated row 2^27..2^40 (f64) / 2^13..2^20 (f32) away, stored first, "
        "last or duplicated, k 3..5, repeated fits); a predict batch-size ladder (one call on 63..1300 / ..4097 rows, inherent and api-trait "
        "entry points); geometric-coordinate families (column 0 = 2^e over 66..110 binary orders of magnitude: BBD tree as "
        "deep as the data are long) for fit and for the filtering step; offset families (small lattice rows + a common offset of ~1e9 / 2^30 per "
        "column, results shifted back); the data sets for which Lloyd.tla reaches an empty cluster, refitted "
        "2400 / 9000 times each; likewise the composition data sets (all rows with the same coordinate total) for "
        "which Lloyd.tla shows a member exchange at constant count and coordinate total, plus simplex layers, "
        "multiset permutations, grids and random compositions in 2..4 dimensions refitted 90 / 600 times; rows one ulp apart (child process).  BBDTree::clustering on random "
        "lattice data with 1..8 centroids drawn from: half-integer grid, copies of rows, coincident "
        "centroids, far outside the data, midpoints of two rows (exact ties), means of row subsets, and "
        "Lloyd chains fed back as exact rationals, offset families; plus terminal states of the BbdFilter model. "
        "A case is non-trivial when TLC finds an exact tie between two centroids for some row, an empty "
        "cluster, or coincident centroids; distinct = distinct inputs (data, k, max_iter / data, centroids)")

FIT_HITS = ("KMFit", "FitLattice", "FitCont", "FitF32", "Means", "PredictFx", "PredictExact", "PredictTie", "FitModel",
            "FitOffset", "FitOffsetExact", "EmptyCluster", "ProbeEmpty", "FitSwap", "FitComp", "PredictBackend", "FitGeo", "PredictLadder", "TraitEntry", "FitOutlier", "FitOutlierF32")
BBD_HITS = ("Bbd", "BbdTie", "BbdCoincident", "BbdEmpty", "BbdRational", "BbdModel", "BbdOffset", "BbdGeo")


def key_of(e, clause):
    """identifies the failing input class (not just the property)"""
    if e["ev"] == "KMFit":
        if clause == "FitStatus" and e.get("cls") == "ulp-down":
            return ("fit does not return: two rows one ulp apart in the split coordinate, midpoint rounds "
                    "to the lower row, half-gap >= 1e-10 (cls=ulp-down)")
        return "KMFit %s: cls=%s prec=%s n=%d d=%d k=%d maxIter=%d offmax=%s" % (
            clause, e.get("cls"), e.get("prec"), e["n"], e["d"], e["k"], e["maxIter"], e.get("offmax"))
    if e["ev"] == "Bbd":
        return "Bbd %s: cls=%s n=%d d=%d k=%d cd=%s" % (clause, e.get("cls"), e["n"], e["d"], e["k"],
                                                         sorted(set(e["cd"])))
    if e["ev"] == "BbdGeo":
        return "BbdGeo %s: n=%d d=%d k=%d" % (clause, e["n"], e["d"], e["k"])
    return "unknown event"


def input_digest(e):
    if e["ev"] == "KMFit":
        return vlib.digest(["F", e["X"], e["k"], e["maxIter"], e["prec"], e.get("off")])
    if e["ev"] == "BbdGeo":
        return vlib.digest(["G", e["X"], e["cg"]])
    return vlib.digest(["B", e["X"], e["cn"], e["cd"], e.get("off")])


def validate(ctx, events, path, model_states=None):
    """TLC evaluates the KMeansProps predicates on every event.  model_states: ndjson file with the
    terminal states of Lloyd.tla (for the drift check), or None -> an empty file."""
    vlib.write_ndjson(path, events)
    if model_states is None:
        model_states = ctx.path("no-model-states.ndjson")
        open(model_states, "w").close()
    v, bads = ctx.tlc_trace("cluster/KMeansTrace.tla", "cluster/KMeansTrace.cfg", path, timeout=3000,
                            env={"MODEL": model_states})
    return v, bads


def run(ctx):
    ctx.build()
    tier = ctx.tier
    # ---- design models (development aid: C12_SKIP_MODELS=1 skips the two runs that do not touch the
    # code under test, for quick mutant demonstrations; registered checks never set it)
    skip_models = os.environ.get("C12_SKIP_MODELS") == "1" and ctx.alt
    # Lloyd.tla on its quick scope also prints its terminal states: the real fits on the same scope
    # (cls=small1d) must end in one of them (else MODEL-DRIFT).  The thorough tier adds the larger scope.
    lcover = ("SeedFirst", "SeedNext", "SeedLast", "Measure", "Assign", "UpdateStop", "UpdateGo")
    _, lprints = ctx.tlc_mc("cluster/Lloyd.tla", "cluster/LloydMC_quick.cfg", timeout=2400, must_cover=lcover,
                            keep_prints=True)
    lstates = [json.loads(p[1]) for p in lprints if p and p[0] == "REPLAY"]
    if len(lstates) < 1000:
        raise vlib.ToolError("only %d terminal states printed by Lloyd.tla" % len(lstates))
    f_model = ctx.path("c12-lloyd-states.ndjson")
    vlib.write_ndjson(f_model, lstates)
    if ctx.thorough and not skip_models:
        ctx.tlc_mc("cluster/Lloyd.tla", "cluster/LloydMC_thorough.cfg", timeout=3000, must_cover=lcover)
        ctx.tlc_mc("cluster/Lloyd.tla", "cluster/LloydMC2d_thorough.cfg", timeout=3000, must_cover=lcover)
    # Lloyd.tla lists the data sets for which some seeding empties a cluster (INFO lines); the harness
    # refits exactly those many times -- repetition is the only lever on the unseeded k-means++ draw.
    _, eprints = ctx.tlc_mc("cluster/Lloyd.tla", "cluster/LloydEC_%s.cfg" % tier, timeout=2400,
                            must_cover=tuple(a for a in lcover if a != "UpdateStop"),
                            keep_prints=True, tag="mc-LloydEC")
    ec = {}
    for p in eprints:
        if p and p[0] == "INFO":
            d = json.loads(p[1])
            ec[json.dumps([d["X"], d["k"]])] = {"X": d["X"], "k": d["k"]}
    if not ec:
        raise vlib.ToolError("Lloyd.tla reached no empty cluster in LloydEC_%s.cfg" % tier)
    # ... and the composition data sets on which a tie-free sweep exchanges members of a cluster without
    # changing its count or coordinate total (a stale-centroid shortcut would go unnoticed there)
    _, sprints = ctx.tlc_mc("cluster/Lloyd.tla", "cluster/LloydSW_%s.cfg" % tier, timeout=2400, must_cover=lcover,
                            keep_prints=True, tag="mc-LloydSW")
    sw = {}
    for p in sprints:
        if p and p[0] == "INFO":
            d = json.loads(p[1])
            sw[json.dumps([d["X"], d["k"]])] = {"X": d["X"], "k": d["k"], "cls": "swap"}
    if not sw:
        raise vlib.ToolError("Lloyd.tla shows no member exchange in LloydSW_%s.cfg" % tier)
    f_ec = ctx.path("c12-empty-configs.ndjson")
    vlib.write_ndjson(f_ec, [ec[kk] for kk in sorted(ec)] + [sw[kk] for kk in sorted(sw)])
    f_refit = ctx.path("c12-refit.ndjson")
    ctx.harness("refit", f_ec, f_refit)
    cover = ("BLeaf", "BSplit", "BLowerDone", "BUpperDone", "Choose", "FDescend", "FAbsorbLeaf", "FAbsorbPruned")
    if not skip_models:
        ctx.tlc_mc("cluster/BbdFilter.tla", "cluster/BbdFilterMC_%s.cfg" % tier, must_cover=cover, timeout=2400)
    if ctx.thorough and not skip_models:
        ctx.tlc_mc("cluster/BbdFilter.tla", "cluster/BbdFilterMC3_thorough.cfg", must_cover=cover, timeout=2400)
        ctx.tlc_mc("cluster/BbdFilter.tla", "cluster/BbdFilterMCu_thorough.cfg", must_cover=cover, timeout=2400)
    # ---- spec -> impl: terminal states of the tree model, replayed through the real tree
    _, prints = ctx.tlc_mc("cluster/BbdFilter.tla", "cluster/BbdFilterRP_%s.cfg" % tier, must_cover=cover,
                           timeout=2400, keep_prints=True)
    cases = [json.loads(p[1]) for p in prints if p and p[0] == "REPLAY"]
    if len(cases) < 500:
        raise vlib.ToolError("only %d REPLAY lines from BbdFilter.tla" % len(cases))
    rp_in = ctx.path("c12-model-cases.ndjson")
    vlib.write_ndjson(rp_in, cases)
    rp_out = ctx.path("c12-model.ndjson")
    ctx.harness("replay-spec", rp_in, rp_out)
    # ---- impl -> spec
    f_fit = ctx.path("c12-fit.ndjson")
    p = ctx.harness("gen-fit", f_fit)
    f_comp = ctx.path("c12-comp.ndjson")
    ctx.harness("gen-comp", f_comp)
    f_bbd = ctx.path("c12-bbd.ndjson")
    p2 = ctx.harness("gen-bbd", f_bbd)
    skipped = 0
    for pp in (p, p2):
        for tok in pp.stdout.split():
            if tok.startswith("skipped="):
                skipped += int(tok.split("=")[1])
    events = vlib.read_ndjson(f_fit) + vlib.read_ndjson(f_refit) + vlib.read_ndjson(f_comp) + vlib.read_ndjson(f_bbd) + vlib.read_ndjson(rp_out)
    v, bads = validate(ctx, events, ctx.path("c12-all.ndjson"), f_model)
    for (l, runid, ev, clause) in bads:
        e = events[l - 1]
        what = "%s fails on %s (status=%s)" % (clause, key_of(e, clause), e.get("status"))
        ctx.report(key_of(e, clause), what, [e])
    # vacuity guard.  Done here rather than through must_hit= so that it cannot mask violations: the
    # per-clause counters only count events that passed, and a broken library may starve a counter.
    missing = [h for h in FIT_HITS + BBD_HITS if v.get("hits", {}).get(h, 0) == 0]
    if missing and not ctx.violations:
        raise vlib.ToolError("vacuous trace run: clauses %s never exercised" % missing)
    # "k finite centroids" when a cluster loses all its members: count the real fits that ended with an
    # empty cluster and passed every clause (multiplicities of the compressed refit record included)
    refits = sum(e.get("mult", 1) for e in events if e.get("cls") == "refit")
    empty_fits = sum(events[l - 1].get("mult", 1) for l in v.get("empties", []))
    vlib.log("[empty-cluster] %d data sets listed by Lloyd.tla, %d refits, %d ended with an empty cluster and finite centroids"
             % (len(ec), refits, empty_fits))
    if empty_fits == 0 and not ctx.violations:
        raise vlib.ToolError("vacuous run: no fit with an empty cluster observed in %d refits" % refits)
    # ---- measurement for the evidence file
    ctx.evaluations = sum(e.get("mult", 1) for e in events)
    ctx.traces = len(events)
    ctx.drift = len(v.get("drift", []))
    if ctx.drift:
        vlib.log("MODEL-DRIFT: %d real outputs satisfy the predicates but differ from the design models "
                 "(replayed BbdFilter.tla states / fits not reached by Lloyd.tla; lines %s)" % (ctx.drift, v["drift"][:10]))
    nontriv = set(input_digest(events[l - 1]) for l in v.get("nontrivial", []))
    hits = v.get("hits", {})
    ctx.extra["clause_hits"] = hits
    ctx.extra["skipped_out_of_range"] = skipped
    ctx.extra["unconstrained_events"] = hits.get("Unconstrained", 0)
    ctx.extra["replayed_model_states"] = len(cases)
    ctx.extra["lloyd_terminal_states"] = len(lstates)
    ctx.extra["empty_cluster_configs_from_model"] = len(ec)
    ctx.extra["member_exchange_configs_from_model"] = len(sw)
    ctx.extra["fits_of_composition_data"] = sum(e.get("mult", 1) for e in events if e.get("cls") in ("swap", "comp"))
    ctx.extra["refits_of_empty_cluster_configs"] = refits
    ctx.extra["fits_with_empty_cluster_observed"] = empty_fits
    ctx.extra["distinct_outcomes_with_probe_labelled_by_memberless_centroid"] = hits.get("ProbeEmpty", 0)
    ctx.extra["not_covered"] = [
        "centroid means of non-dyadic / continuous data are checked at 2^-12 absolute only",
        "predict on continuous or single-precision data, or with an empty cluster, is checked at 2^-8 (near-ties accepted)",
        "offset families are double precision only (a single-precision centroid at offset 2^12 is not known to 2^-12); "
        "the distortion of the filtering step at offset ~1e9 is checked to 2^-2 only",
        "k-means++ draw with cutoff exactly 0 (probability 2^-53) is not modelled",
        "predict is not decided on the outlier families (per-column power-of-two scaling of the record)",
    ]
    fits = [e for e in events if e["ev"] == "KMFit" and e["status"] == "ok"]
    samples = [x for x in fits if x["cls"] == "small1d"][:1]
    samples += [x for x in fits if x["cls"] == "blobs" and x["n"] <= 12][:1]
    samples += [x for x in events if x["ev"] == "Bbd" and x["cls"] == "random" and x["n"] <= 8 and x["k"] >= 3][:1]
    samples += [x for x in events if x["ev"] == "Bbd" and x["cls"] == "chain" and x["n"] <= 10][1:2]
    samples += [x for x in events if x["ev"] == "Bbd" and x["cls"] == "model"][-1:]
    samples += [x for x in events if x["ev"] == "KMFit" and x["status"] != "ok"][:1]
    ctx.samples = samples
    ctx.assumptions = [
        "lattice inputs: every comparison the library makes is between exactly representable values, so the "
        "exact rational predicates decide the clause; a rational non-tie is wider than the rounding error of the scan",
        "the k-means++ seeding is unseeded (thread_rng): initialisations are sampled by repetition, and enumerated "
        "only in the Lloyd design model",
        "private state (_y, size, centroids) is read from the serde serialisation of the fitted model",
        "rows one ulp apart are run in a child process because a stack overflow cannot be caught in-process",
    ]
    return ctx.finish(RULE, len(nontriv), exhaustive=False)


def replay(ctx, path):
    """re-validate the stored events and, where the input can be reconstructed exactly, re-execute them"""
    ctx.build()
    d = json.load(open(path))
    stored = ctx.path("replay-stored.ndjson")
    vlib.write_ndjson(stored, d["events"])
    rerun = ctx.path("replay-rerun.ndjson")
    ctx.harness("rerun", stored, rerun)
    events = d["events"] + vlib.read_ndjson(rerun)
    v, bads = validate(ctx, events, ctx.path("replay-all.ndjson"))
    for (l, runid, ev, clause) in bads:
        print("REPLAY-BAD line=%d (%s) %s: %s" % (l, "stored" if l <= len(d["events"]) else "re-executed", ev, clause))
    return 1 if bads else 0
