"""C13 — DBSCAN labels satisfy the definition of density-based clusters.  DESIGN.md §3 C13.

Flow of one run
  1. TLC model-checks the design model spec/cluster/Dbscan.tla (the `fit` loop transcribed
     branch for branch) on small lattices against IsDensityClustering (DbscanProps.tla) and a
     set of structural invariants; several configurations run side by side, one TLC worker each
     (TLC does not scale with workers on this model: the states are too cheap).
  2. spec -> impl: the configurations with Emit = TRUE print every terminal state (input +
     the model's labelling).  The harness replays every distinct input through the real
     DBSCAN with both back ends (metric / scalar type / power-of-two scale varied per case).
  3. impl -> spec: the harness also records seeded random larger data sets (1..150 rows,
     1..4 dimensions, chains with gaps exactly eps, blobs, duplicates, bridges, all-identical,
     single rows), a family of widely spread half-integer sets in 2..4 dimensions (small eps
     relative to the spread: deep cover trees with many children per node), a size ladder
     (255..513 rows quick, 63..1025 thorough, clusters stored late in the row order; predict
     batches of 257..1025 rows), multi-scale dyadic sets (tight groups at 2^-45 of the extent,
     two-level integer codes) and geometric (doubling) coordinates; inherent and api-trait
     entry points.  Query rows: in-sample, near (at / just inside / just outside the radius), far,
     and 'contested' rows chosen after a preliminary fit (ball with >= 2 clusters and noise).
  4. TLC validates every recorded event with DbscanTrace.tla, i.e. with the very predicates
     of step 1: the seven clauses of the labelling, back-end independence, and PredictOK.
  5. A failed clause is a VIOLATION (or a KNOWN-FINDING when listed in known_findings/C13.json);
     a real labelling that satisfies the predicate but is not one the model produces is
     MODEL-DRIFT (counted, exit 0).
"""
import json
from concurrent.futures import ThreadPoolExecutor

import vlib

LEVEL = "model_checking"

ACTIONS = ("Skip", "MarkOutlier", "OpenCluster", "Finish", "RelabelBorder", "AbsorbBorder",
           "ExpandCore", "SkipLabelled", "CloseCluster")

# lanes of model-checking configurations; the lanes run concurrently, one TLC worker each
# (name, prints REPLAY lines, neighbour order of the model)
PREDICT_ACTIONS = ("Vote", "Pick")

LANES = {
    "quick": [
        [("quick_any", True, "any"), ("predict:quick", False, "")],
        [("quick_asc", True, "asc")],
        [("quick_2d", True, "asc"), ("quick_live", False, "any")],
    ],
    "thorough": [
        [("thorough_any", True, "any"), ("thorough_any2d", True, "any"), ("thorough_desc", False, "desc")],
        [("thorough_asc7", True, "asc")],
        [("thorough_line5_e2m4", False, "asc"), ("thorough_line5_e2m3", False, "asc"), ("thorough_live", False, "any")],
        [("thorough_line5_e1m3", False, "asc"), ("thorough_line5_e1m4", False, "asc")],
        [("thorough_2d6a", False, "asc")],
        [("thorough_2d6b", False, "asc"), ("predict:quick", False, ""), ("predict:thorough", False, "")],
        [("thorough_2d5", True, "asc"), ("quick_asc", True, "asc")],
    ],
}

MUST_HIT = ("Run", "FitOk", "SingleRow", "AllIdentical", "Core", "Border", "Noise", "TwoClusters", "ProvisionalNoise",
            "AmbiguousBorder", "ExactEps", "Duplicates", "BackendPair",
            "PredictEmpty", "PredictNoiseWins", "PredictContestedNoise", "PredictTie", "PredictPlurality")

RULE = ("Data sets: (a) every input of the Emit model-checking configurations, replayed through the real DBSCAN with "
        "both back ends -- quick: all sequences of 1..5 points on the 1-D lattice {0..3} and of 1..4 points on the 2-D "
        "3x2 lattice; thorough: 1..7 points on {0..3}, 1..5 points on 3x2, 1..4 on 2x2, each with every eps / minPts "
        "of its configuration; (b) seeded random sets of 1..150 points in 1..4 dimensions (uniform lattice boxes, "
        "blobs, chains with steps exactly eps, duplicates, bridges between two clusters, all-identical; widely spread "
        "half-integer sets and far-apart islands in 2..4 dimensions with eps small relative to the spread; a size "
        "ladder up to 513 (quick) / 1025 (thorough) rows with late-stored clusters and long predict batches; "
        "multi-scale dyadic sets with groups at 2^-40..2^-48 of the extent; doubling coordinates; 'contested' sets "
        "whose centre cell sees several clusters and noise), eps from "
        "'all noise' to 'one cluster', minPts 1..8, Manhattan / Minkowski-1 / Euclidean, f64 / f32, power-of-two "
        "scales. A data set is non-trivial when it has a border row or at least two clusters (decided by TLC from "
        "the definitions); distinct = distinct (points, key, eps, minPts)")


def case_key(d):
    return (json.dumps(d["pts"]), d["key"], d["eps"], d["minPts"])


def variant(idx, key, thorough):
    """metric / scalar type / scale the harness uses for replay case number idx"""
    if key == "man":
        metric = "manhattan" if idx % 2 == 0 else "minkowski1"
    else:
        metric = "euclidean"
    ty = "f32" if idx % 4 == 3 else "f64"
    scale = (0, -3, 0, 7, 0, -16)[idx % 6]
    api = "trait" if idx % 5 == 4 else "inherent"
    return metric, ty, scale, api


def run_lane(ctx, lane):
    out = []
    for (name, emit, order) in lane:
        if name.startswith("predict:"):
            # design model of predict: every density-based clustering of every small data set x every query row
            ctx.tlc_mc("cluster/DbscanPredict.tla", "cluster/DbscanPredictMC_%s.cfg" % name.split(":")[1], workers=1,
                       timeout=3000, must_cover=PREDICT_ACTIONS, tag="mc-predict-" + name.split(":")[1])
            continue
        r = ctx.tlc_mc("cluster/Dbscan.tla", "cluster/DbscanMC_%s.cfg" % name, workers=1, timeout=3000,
                       must_cover=ACTIONS, keep_prints=emit, tag="mc-" + name)
        if emit:
            run, prints = r
            reps = [json.loads(p[1]) for p in prints if p[0] == "REPLAY"]
            if not reps:
                raise vlib.ToolError("configuration %s printed no REPLAY line" % name)
            out.append((name, order, reps))
    return out


def validate(ctx, events, tag, nchunks):
    """TLC trace validation of `events` (already numbered run = position) in nchunks files side
    by side; the events are dealt round-robin so that the chunks cost about the same.
    Returns (bads [(event index, clause)], hits, nontrivial run ids)."""
    nchunks = max(1, min(nchunks, len(events) // 50 + 1))
    jobs = []
    for c in range(nchunks):
        part = events[c::nchunks]
        if not part:
            continue
        f = ctx.path("c13-%s-%d.ndjson" % (tag, c))
        vlib.write_ndjson(f, part)
        jobs.append((c, f))

    def one(job):
        c, f = job
        v, bads = ctx.tlc_trace("cluster/DbscanTrace.tla", "cluster/DbscanTrace.cfg", f, timeout=2400)
        return c, v, bads

    bads, hits, nontriv = [], {}, []
    with ThreadPoolExecutor(max_workers=len(jobs)) as ex:
        for c, v, bl in ex.map(one, jobs):
            for (l, runid, ev, clause) in bl:
                bads.append((c + (l - 1) * nchunks, clause))
            for k, n in v.get("hits", {}).items():
                hits[k] = hits.get(k, 0) + n
            nontriv += v.get("nontrivial", [])
    return bads, hits, nontriv


def describe(e):
    return "n=%d d=%d key=%s eps=%d minPts=%d metric=%s ty=%s scaleExp=%d api=%s src=%s" % (
        len(e["pts"]), len(e["pts"][0]), e["key"], e["eps"], e["minPts"], e["metric"], e["ty"], e["scaleExp"],
        e.get("api", "inherent"), e["src"])


def key_and_what(e, clause):
    """the known-findings key of a failed clause: the failing input class, not the property"""
    parts = clause.split("/")
    fit = {f["backend"]: f for f in e["fits"]}
    if parts[0] == "Fit" and parts[2] == "NoResult":
        status = fit[parts[1]]["status"]
        return ("fit %s: %s -> %s" % (parts[1], parts[3], status),
                "DBSCAN::fit with the %s back end returns no model (%s) on a data set of class '%s' (%s); the property promises a labelling"
                % (parts[1], status, parts[3], describe(e)))
    if parts[0] == "Predict" and parts[2] == "EmptyNbhdNotNoise":
        return ("predict: no neighbour within eps, >=1 cluster: returns class %s" % parts[3].replace("out=", ""),
                "predict labels a row that has no training point within eps with a cluster label (%s) instead of noise (-1); %s"
                % (parts[3], describe(e)))
    return ("%s: %s" % (clause, describe(e)),
            "clause %s of the property is false on what the real code returned (%s)" % (clause, describe(e)))


def run(ctx):
    ctx.build()
    th = ctx.thorough
    pool = ThreadPoolExecutor(max_workers=8)
    lane_futs = [pool.submit(run_lane, ctx, lane) for lane in LANES[ctx.tier]]

    # ---- impl -> spec, random families (runs while the model checker is busy)
    def random_part():
        f = ctx.path("c13-random.ndjson")
        ctx.harness("gen-random", f)
        return vlib.read_ndjson(f)
    rand_fut = pool.submit(random_part)

    emitted = []
    for fu in lane_futs:
        emitted += fu.result()
    rand_events = rand_fut.result()
    pool.shutdown()
    # the model-checking runs were accounted from several threads: recompute the totals
    ctx.states = sum(r["distinct"] for r in ctx.mc_runs)
    ctx.transitions = sum(r["generated"] for r in ctx.mc_runs)

    # ---- spec -> impl: distinct inputs of the printed terminal states, with the labellings
    # the model reaches for them (per neighbour order of the configuration)
    cases, order_of = {}, []
    for (name, order, reps) in emitted:
        for d in reps:
            ck = case_key(d)
            if ck not in cases:
                cases[ck] = {"d": d, "any": set(), "asc": set()}
                order_of.append(ck)
            cases[ck][order].add((tuple(d["y"]), d["k"]))
    lines = []
    for idx, ck in enumerate(order_of):
        d = cases[ck]["d"]
        metric, ty, scale, api = variant(idx, d["key"], th)
        lines.append({"ev": "Run", "src": "lattice", "case": idx, "pts": d["pts"], "key": d["key"], "eps": d["eps"],
                      "minPts": d["minPts"], "metric": metric, "ty": ty, "scaleExp": scale, "api": api})
    casef = ctx.path("c13-cases.ndjson")
    vlib.write_ndjson(casef, lines)
    repf = ctx.path("c13-replayed.ndjson")
    ctx.harness("replay-spec", casef, repf)
    rep_events = vlib.read_ndjson(repf)
    if len(rep_events) != len(lines):
        raise vlib.ToolError("harness replayed %d of %d cases" % (len(rep_events), len(lines)))

    # model drift: the real labelling is acceptable to the predicate (decided below by TLC) but
    # is not one the design model produces for this input
    for e in rep_events:
        exp = cases[order_of[e["case"]]]
        for f in e["fits"]:
            if f["status"] != "ok":
                continue
            got = (tuple(f["y"]), f["k"])
            if f["backend"] == "linear" and exp["asc"] and got not in exp["asc"]:
                ctx.drift += 1
                if ctx.drift <= 20:
                    vlib.log("MODEL-DRIFT: linear back end, case %d: real %s, model(asc) %s" % (e["case"], got, sorted(exp["asc"])))
            elif exp["any"] and got not in exp["any"]:
                ctx.drift += 1
                if ctx.drift <= 20:
                    vlib.log("MODEL-DRIFT: %s back end, case %d: real %s not among the model's labellings (any order)" % (f["backend"], e["case"], got))

    # ---- TLC validates everything that was recorded
    events = rep_events + rand_events
    for i, e in enumerate(events):
        e["run"] = i + 1
    bads, hits, nontriv = validate(ctx, events, "all", 8)
    for h in MUST_HIT:
        if hits.get(h, 0) == 0:
            raise vlib.ToolError("vacuous trace run: situation %s never exercised" % h)

    # every failed clause becomes a report; for a listed known finding only the first few
    # events per key go through ctx.report (it prints the KNOWN-FINDING line once), the rest
    # are counted
    known_keys = set(k.get("key") for k in ctx.known if k.get("status") == "known")
    per_key = {}
    for (i, clause) in sorted(set(bads)):
        e = events[i]
        key, what = key_and_what(e, clause)
        per_key[key] = per_key.get(key, 0) + 1
        if key in known_keys and per_key[key] > 3:
            continue
        ctx.report(key, what, [e])
    ctx.extra["failed_clause_events_per_key"] = dict((k, n) for k, n in per_key.items() if k in known_keys)

    ctx.evaluations = len(events)
    ctx.traces = sum(len(e["fits"]) for e in events)
    nt = set(case_key(events[r - 1]) for r in nontriv)
    ntset = set(nontriv)
    smalls = [e for e in rand_events if e["ev"] == "Run" and 6 <= len(e["pts"]) <= 12 and e["run"] in ntset]
    lat = [e for e in rep_events[len(rep_events) // 2:] if e["run"] in ntset and len(e["pts"]) >= 4]
    ctx.samples = lat[:1] + smalls[:2] + rep_events[:1]
    ctx.extra["situations_hit"] = hits
    ctx.extra["replayed_model_inputs"] = len(rep_events)
    ctx.extra["random_data_sets"] = len(rand_events)
    ctx.extra["largest_data_set"] = max(len(e["pts"]) for e in events)
    ctx.extra["exhaustive_parts"] = ("the model-checking runs and the replay of their inputs enumerate their finite scopes "
                                     "completely; the random families are sampled")
    ctx.assumptions = [
        "integer lattice coordinates times a power of two: every distance comparison of the library is exact "
        "(sqrt is monotone and separates distinct integers below 2^24), so the integer predicates are exact",
        "continuous (non-dyadic) coordinates are not covered: d <= eps is a threshold, not an order",
        "cluster_labels / num_classes are read from the serde dump of the fitted model",
        "the harness is compiled with overflow-checks and debug-assertions (the profile of the repository's own tests)",
    ]
    return ctx.finish(RULE, len(nt), exhaustive=False)


def replay(ctx, path):
    """Re-validate the recorded events of a replay artefact (information), then re-execute the
    same inputs on the current tree and validate what the code returns now.  Exit 1 when the
    re-executed events still fail a clause, 0 when they pass (e.g. after a fix)."""
    d = json.load(open(path))
    for e in d["events"]:      # artefacts recorded before the two-level codes / api field existed
        e.setdefault("enc", {"M": 0, "L": 0, "K": 0})
        e.setdefault("api", "inherent")
    f = ctx.path("replay-recorded.ndjson")
    vlib.write_ndjson(f, d["events"])
    v, bads = ctx.tlc_trace("cluster/DbscanTrace.tla", "cluster/DbscanTrace.cfg", f, tag="trace-recorded")
    for b in bads:
        print("REPLAY-RECORDED-BAD", b)
    ctx.build()
    g = ctx.path("replay-reexecuted.ndjson")
    ctx.harness("replay-file", path, g)
    v, bads = ctx.tlc_trace("cluster/DbscanTrace.tla", "cluster/DbscanTrace.cfg", g, tag="trace-reexecuted")
    rc = 0
    known_keys = set(k.get("key") for k in ctx.known if k.get("status") == "known")
    redone = vlib.read_ndjson(g)
    for b in bads:
        key, what = key_and_what(redone[b[0] - 1], b[3])
        if key in known_keys:
            print("REPLAY-KNOWN-FINDING (not counted)", b)
            continue
        print("REPLAY-BAD (re-executed on the current tree)", b)
        rc = 1
    print("replay: the re-executed events %s" % ("still FAIL" if rc else "pass on the current tree"))
    return rc
