"""C01 — LU, QR, Cholesky and SVD factors multiply back to the input and solve A*X = B.
DESIGN.md §3 "numerical kernels" (kind B contract specification, coarse fixed-point level).

impl -> spec only: harness/c01 drives the real lu / qr / cholesky / svd / *_solve_mut / inverse
on exhaustive small domains and seeded random families, spec/linalg/FactorisationsTrace.tla
evaluates Judge(e) of Factorisations.tla on every recorded call under TLC."""
import json

import vlib

LEVEL = "exploration"

RULE = ("every recorded public call (lu+L/U/pivot, lu.inverse, qr+Q/R, cholesky+L/U, svd+U/V/s/S, and the four *_solve "
        "routines with 1..4 right-hand sides) on integer-valued matrices of order 1..12 (|entries| <= 16, cap 2 above order 8) plus a "
        "size ladder at orders 20, 33, 64 (square, 20x12 / 33x20 / 64x33 tall and their wide transposes; unimodular block, "
        "Hadamard, diagonally dominant SPD and SPD-with-a-negative-diagonal-entry inputs whose rank / conditioning certificate is "
        "known by construction), fed as A*2^se, "
        "se in {0,+40,-40}, in f64 and f32; families: dense, diagonal, triangular, (signed) permutation, orthogonal "
        "(Hadamard blocks), low-rank-plus-ridge, zero leading entries with negative alternatives, mildly graded (rows/columns "
        "of a {-1,0,1} matrix scaled by 2^0..2^2), singular, tall / wide with "
        "zero or duplicated rows, exactly rank-deficient with integer null-space basis, Gram / diagonally dominant / "
        "indefinite / zero-pivot / semidefinite symmetric; one certified input in six with tiny entries (2^-60 .. 2^-600 relative) "
        "written into zero positions (graded entries inside one matrix); right-hand sides random or mixing zero, repeated, unit "
        "and leading-column-orthogonal columns in every position; six fixed rank-deficient inputs (7x4, 5x5, 4x7, rank 1-2) in "
        "f32 at 2^-37, 2^-40, 2^0 and f64 at 2^-40; exhaustive: all 729 symmetric 3x3 matrices over {-1,0,1} through "
        "cholesky, all 2x2 matrices over {-2..2} through everything. A call is non-trivial when its premise is exercised "
        "with a structural effect visible in the output: LU with P != I, QR with a negative diagonal entry of R or m > n, "
        "Cholesky / SVD of a non-diagonal matrix, a solve with m > n or rank-deficient A, an expected Cholesky error; "
        "distinct = distinct (call, width, se, A, B) tuples")

CLAUSES_RANDOM = ("LU", "Inv", "QR", "Chol.ok", "Chol.err", "SVD.square", "SVD.tall", "SVD.wide",
                  "lu.square", "qr.square", "qr.ls", "chol.square", "chol.err", "svd.square", "svd.ls", "svd.minnorm")
CLAUSES_EXH = ("LU", "Inv", "QR", "Chol.ok", "Chol.err", "SVD.square", "lu.square", "qr.square", "svd.square")

SPEC = "linalg/FactorisationsTrace.tla"
CFG = "linalg/FactorisationsTrace.cfg"
CHUNK = 30000


def call_of(e):
    if e["ev"] != "Solve":
        return e["ev"]
    m = e.get("method", "?")
    return "Solve." + ("svd" if m.startswith("svd") else m)


def key_of(e, clause):
    """Failing *input class* (not outcome), so that a different failure is still reported."""
    call = call_of(e)
    if "mustErr.zeroPivot.nan" in clause:
        return "cholesky: indefinite A whose exact elimination meets a zero pivot first -> Ok with NaN factors (%s)" % call
    nullity = len(e["cert"]["N"][0]) if e["cert"]["N"] else 0
    if e["w"] == "f32" and nullity >= 4 and call in ("SVD", "Solve.svd"):
        return "svd: f32 exactly rank-deficient matrix with nullity >= 4, any scale (%s)" % call
    if e["se"] == -40 and call in ("QR", "Solve.qr", "SVD", "Solve.svd"):
        if e["w"] == "f32":
            return "absolute T::epsilon() threshold: %s of an f32 matrix scaled by 2^-40" % call
        if call in ("SVD", "Solve.svd") and (e["m"] < e["n"] or e["cert"]["N"]):
            return ("absolute T::epsilon() threshold: %s of an f64 matrix scaled by 2^-40 that has a zero singular value "
                    "(wide or rank-deficient)" % call)
    return "%s %s w=%s se=%d fam=%s %dx%d" % (call, clause, e["w"], e["se"], e["fam"], e["m"], e["n"])


def nontrivial(e):
    if e["status"] == "err" and e["ev"] in ("Chol", "Solve"):
        return True
    if e["status"] != "ok" or not e["fin"] or not e["inr"]:
        return False
    a = e["A"]
    offdiag = any(a[i][j] != 0 for i in range(len(a)) for j in range(len(a[0])) if i != j)
    o = e["out"]
    if e["ev"] == "LU":
        return any(o["P"][i][i] != 1 for i in range(len(o["P"])))
    if e["ev"] == "QR":
        return e["m"] > e["n"] or any(o["Rsg"][i][i] < 0 for i in range(len(o["Rsg"])))
    if e["ev"] in ("Chol", "SVD", "Inv"):
        return offdiag
    if e["ev"] == "Solve":
        return e["m"] > e["n"] or bool(e["cert"]["N"]) or offdiag
    return False


def validate(ctx, path, must_hit):
    """TLC over one ndjson file; returns (events, bads as (event, clause), hits).  The file is cut into parts of
    at most CHUNK events, the expensive size-ladder events (orders 20 / 33 / 64, seconds of TLC time each) go into a
    part of their own, and the parts are validated by up to three TLC processes side by side."""
    from concurrent.futures import ThreadPoolExecutor
    events = vlib.read_ndjson(path)
    ladder = [e for e in events if "@" in e.get("fam", "")]
    rest = [e for e in events if "@" not in e.get("fam", "")]
    parts = [rest[c:c + CHUNK] for c in range(0, len(rest), CHUNK)] or [[]]
    if ladder:
        half = (len(ladder) + 1) // 2
        parts += [ladder[:half], ladder[half:]] if len(ladder) > 8 else [ladder]
    parts = [p for p in parts if p]
    files = []
    for c, part in enumerate(parts):
        f = path if len(parts) == 1 else path.replace(".ndjson", "-part%d.ndjson" % c)
        if len(parts) > 1:
            vlib.write_ndjson(f, part)
        files.append(f)
    with ThreadPoolExecutor(max_workers=3) as pool:
        results = list(pool.map(lambda f: ctx.tlc_trace(SPEC, CFG, f, timeout=1500), files))
    bads, hits = [], {}
    for part, (v, b) in zip(parts, results):
        for (l, run, ev, clause) in b:
            bads.append((part[l - 1], clause))
        for k, n in v.get("hits", {}).items():
            hits[k] = hits.get(k, 0) + n
    vac = [h for h in must_hit if hits.get(h, 0) == 0]
    return events, bads, hits, vac


def models(ctx):
    """Model-check the design models; returns the REPLAY lines (model observables per input)."""
    replays = []
    for cfg in ("LUModelMC2_%s", "LUModelMC_%s"):
        run, prints = ctx.tlc_mc("linalg/LUModel.tla", "linalg/" + cfg % ctx.tier + ".cfg", timeout=1500,
                                 must_cover=("Col", "Pivot", "Scale"), keep_prints=True)
        replays += [json.loads(p[1]) for p in prints if p[0] == "REPLAY"]
    # cholesky_mut as it stands (reject iff d < 0 or d is NaN, commit a05df8f): properties + REPLAY lines
    run, prints = ctx.tlc_mc("linalg/CholeskyModel.tla", "linalg/CholeskyModelMC_%s.cfg" % ctx.tier, timeout=1500,
                             must_cover=("Off", "Diag"), keep_prints=True)
    replays += [json.loads(p[1]) for p in prints if p[0] == "REPLAY"]
    # the alternative repair `!(d > 0)`: the same properties hold, so neither repair is preferred
    ctx.tlc_mc("linalg/CholeskyModel.tla", "linalg/CholeskyModelMCstrict_%s.cfg" % ctx.tier, timeout=1500,
               must_cover=("Off", "Diag"))
    # regression shape: the defect repaired by a05df8f (`d < 0` alone); DefectExtent = its exact extent
    ctx.tlc_mc("linalg/CholeskyModel.tla", "linalg/CholeskyModelMCregress_%s.cfg" % ctx.tier, timeout=1500,
               must_cover=("Off", "Diag"))
    return replays


def run(ctx):
    ctx.build()
    all_events, all_bads, all_hits, stats, vacuous = [], [], {}, {}, []
    replays = models(ctx)
    rf = ctx.path("c01-model-replay.ndjson")
    vlib.write_ndjson(rf, replays)
    cf = ctx.path("c01-modelcmp.ndjson")
    ctx.harness("replay-spec", rf, cf)
    events, bads, hits, vac = validate(ctx, cf, ("LU=model", "Chol=model"))
    if len(events) != len(replays) or bads:
        raise vlib.ToolError("model comparison: %d replay lines, %d events, %d bad" % (len(replays), len(events), len(bads)))
    vacuous += ["%s in model comparison" % h for h in vac]
    for k, n in hits.items():
        all_hits[k] = all_hits.get(k, 0) + n
    ctx.drift = sum(v for k, v in hits.items() if k.startswith("drift:"))
    if ctx.drift:
        vlib.log("MODEL-DRIFT property=C01: %d of %d inputs on which the real code differs from the design model %s"
                 % (ctx.drift, len(events), {k: v for k, v in hits.items() if k.startswith("drift:")}))
    n_cmp = len(events)
    for sub, must in (("exhaustive", CLAUSES_EXH), ("random", CLAUSES_RANDOM)):
        f = ctx.path("c01-%s.ndjson" % sub)
        p = ctx.harness("gen-" + sub, f)
        stats[sub] = json.loads(p.stdout.strip().splitlines()[-1])
        events, bads, hits, vac = validate(ctx, f, must)
        vacuous += ["%s in %s" % (h, sub) for h in vac]
        all_events += events
        all_bads += bads
        for k, n in hits.items():
            all_hits[k] = all_hits.get(k, 0) + n
    n = len(all_events) + n_cmp
    oor = sum(v for k, v in all_hits.items() if k.startswith("oor:"))
    unc = sum(v for k, v in all_hits.items() if k.startswith("unc:"))
    if oor * 20 > n:
        raise vlib.ToolError("%d of %d events out of TLC's integer range: the run decides too little" % (oor, n))
    for (e, clause) in all_bads:
        ctx.report(key_of(e, clause), "%s: clause %s violated (w=%s, se=%d, family %s, %dx%d, status %s%s)"
                   % (call_of(e), clause, e["w"], e["se"], e["fam"], e["m"], e["n"], e["status"],
                      ", " + e["msg"] if e.get("msg") else ""), [e])
    # a clause that never held is a vacuous run (tool error) -- unless it never held because the
    # code violates it, in which case the violations reported above are the result
    if vacuous and not ctx.violations:
        raise vlib.ToolError("vacuous trace run: clause(s) never demanded-and-held: %s" % ", ".join(vacuous))
    ctx.evaluations = n
    ctx.traces = n
    nt = set()
    for e in all_events:
        if nontrivial(e):
            nt.add(vlib.digest([call_of(e), e["w"], e["se"], e["A"], e.get("B")]))
    pick = lambda pred: [x for x in all_events if pred(x)][:1]
    ctx.samples = (pick(lambda x: x["ev"] == "LU" and x["n"] == 3 and x["status"] == "ok" and x["inr"] and x["fin"])
                   + pick(lambda x: x["ev"] == "Chol" and x["status"] == "err")
                   + pick(lambda x: x["ev"] == "Solve" and x["m"] > x["n"] and x["status"] == "ok" and x["inr"] and x["fin"]))
    ctx.extra["model_drift_explanation"] = (
        "LUModel / CholeskyModel are exact (rational) transcriptions; the real cholesky rounds sqrt(d). On an input whose exact "
        "elimination meets a zero pivot after an irrational square root (e.g. a11 = 2: sqrt(2)^2 != 2 in floating point) the real "
        "pivot is +-tiny instead of 0, so the real call may reject (or accept) where the exact model does the opposite. All such "
        "inputs are on the semidefinite boundary or are rejected either way; the property clauses are judged separately by trace "
        "validation and are unaffected. Any other drift would mean the code no longer follows the modelled algorithm.")
    ctx.extra["clause_hits"] = all_hits
    ctx.extra["unconstrained_events"] = unc
    ctx.extra["out_of_range_events"] = oor
    ctx.extra["harness_stats"] = stats
    ctx.extra["not_covered"] = [
        "accuracy finer than about 2^-10 relative to ||A|| (a small multiple of machine precision is NOT decided)",
        "orders other than 1..12, 20, 33, 64; |entries| above 16 (cap 4 at order 8, 2 above); condition numbers above 2^12 (certified "
        "bound); at orders >= 20 only structured inputs with a constructible integer certificate (no dense random matrices)",
        "graded singular values, non-integer data, rescalings other than 2^0, 2^40, 2^-40",
        "SVD factor clauses on rank-deficient input (statement silent), Cholesky on the semidefinite boundary",
    ]
    ctx.assumptions = [
        "inputs are integer-valued matrices scaled by an exact power of two; outputs are descaled exactly before quantisation",
        "premises (rank, conditioning, definiteness) are certified inside the TLA+ spec from integer certificates; "
        "uncertified inputs are unconstrained, not passed",
        "tolerance = worst-case quantisation error + 64*k*u*magnitude rounding slack (u = 2^-24 for f32, absorbed for f64)",
    ]
    return ctx.finish(RULE, len(nt), exhaustive=False,
                      explanation="exhaustive only on the two small domains named in the rule; everything else is seeded sampling")


def replay(ctx, path):
    """Re-validate the recorded events, then re-execute their inputs on the current tree and validate those."""
    d = json.load(open(path))
    rc = 0
    f = ctx.path("replay-recorded.ndjson")
    vlib.write_ndjson(f, d["events"])
    v, bads = ctx.tlc_trace(SPEC, CFG, f)
    for b in bads:
        print("REPLAY-BAD recorded", b)
        rc = 1
    ctx.build()
    g = ctx.path("replay-rerun.ndjson")
    ctx.harness("replay-file", f, g)
    want = set((e["ev"], e.get("method")) for e in d["events"])
    ev2 = [e for e in vlib.read_ndjson(g) if (e["ev"], e.get("method")) in want]
    vlib.write_ndjson(g, ev2)
    v, bads = ctx.tlc_trace(SPEC, CFG, g, tag="trace-replay-rerun")
    for b in bads:
        print("REPLAY-BAD rerun", b)
        rc = 1
    return rc
