"""C10 — SVM models are dual-feasible, KKT-consistent and equal their kernel expansion, for
every visiting order.  DESIGN.md §3 C10.

Pipeline
  1. design models (TLC, exhaustive): SvmSchedule (all tuples of visiting orders -> REPLAY lines),
     Lasvm (abstract LASVM trainer: feasibility for every schedule / pair / step),
     SvrSmo (abstract epsilon-SVR pair update: box and sum invariants of the clipping);
  2. spec -> impl: every enumerated schedule is injected into the real SVC::fit through
     smartcore::verif::push_schedule (harness `replay-spec`);
  3. impl -> spec: seeded random fits (SVC with injected random schedules and a few left to the
     real thread_rng, SVR, kernels / Gram matrices) are recorded;
  4. SvmTrace.tla evaluates the predicates of SvmContracts.tla / Kernels.tla on every event.
"""
import json
import os
from concurrent.futures import ThreadPoolExecutor

import vlib

LEVEL = "model_checking"

RULE = ("SVC: every schedule (tuple of 1+epochs permutations) enumerated by TLC from SvmSchedule.tla for n=4 "
        "(quick: 1 epoch, 576; thorough: also 2 epochs, 13 824, and n=5, 1 epoch, 14 400) is injected into the real "
        "trainer for each of 4 kernels on a rotating table of 6 training sets x label encodings x C; plus seeded "
        "random two-class integer data (n 4..40 quick / 4..80 thorough, 1..5 features, separable / overlapping / "
        "duplicated rows of both classes, C in 1/8..100, epochs 1..4, tol 2^-7..2^-13, 4 kernels) with injected "
        "random schedules and every 25th fit left to the unseeded RNG.  SVR: seeded random regression sets "
        "(n 4..30 / 4..60, eps in {0, 0.1, 1/8, 1/4, 1/2}); a size ladder (training sets of 65..257 rows with most rows support vectors; ONE decision_function / predict "
        "call on 63..1025 and 3000 query rows compared with the same rows evaluated in blocks); every 9th random SVC fit uses a label pair with "
        "a special arithmetic shape (same integer part, straddling zero inside (-1,1), closer than machine epsilon, "
        "adjacent floats, huge, subnormal, -0.0); every 5th fit goes "
        "through the api traits (SupervisedEstimator::fit, Predictor::predict); every 6th SVR fit has its targets confined to a band that "
        "is narrow relative to eps (constant, range <= eps, eps < range <= 2 eps skewed with 1-2 outliers at one "
        "end, exactly 2 eps, 2 eps + one step, eps = 0), for all kernels.  Kernels: exhaustive pairs over {-2..2}^2 for 15 kernel "
        "settings (polynomial degrees 1, 2, 3 and the fractional 1/2, 3/2, 5/2, 1/4, 3/4, 5/4), random vectors, Gram "
        "matrices n<=5/6; RBF evaluations and Gram matrices are repeated with a common offset 2^20 / 2^27 / 2^30 "
        "on every coordinate and judged on the small integers (translation invariance); every 12th SVC and every 16th SVR fit uses a fractional-degree polynomial kernel on "
        "non-negative features.  A fit is non-trivial when some coefficient is at a bound "
        "(|w| >= C - 2^-15) and another strictly inside (2^-15 < |w| < C - 2^-15); distinct = distinct `in` "
        "objects (data, labels, C, kernel, epochs, tol, schedule) among the non-trivial fits")


FIT_EVENTS = ("SvcFit", "SvrFit", "SvcBatch", "SvrBatch")


def at_bound_and_inside(e):
    if e.get("status") != "ok" or e["ev"] not in FIT_EVENTS:
        return False
    o = e["out"]
    if not (o.get("finite") and o.get("wok")):
        return False
    c = e["in"]["C16"]
    w = [abs(v) for v in o["w16"]]
    return any(v >= c - 2 for v in w) and any(2 < v < c - 2 for v in w)


def key_of(e, clause):
    """the failing input class: clause x estimator x kernel x structural features of the input"""
    i = e.get("in", {})
    k = i.get("kernel", {})
    kn = k.get("name", "?")
    if e["ev"] in FIT_EVENTS:
        x = i.get("X", [])
        dup = len(set(map(tuple, x))) < len(x)
        feats = []
        if dup:
            feats.append("duplicate rows")
        if e["ev"] == "SvcFit":
            feats.append("src=%s" % e.get("src"))
        if "batch" in i:
            feats.append("batch>256" if len(i["batch"]["rows"]) > 256 else "batch<=256")
        if len(x) >= 91:
            feats.append("n>=91")
        if i.get("api"):
            feats.append("api traits")
        if i.get("off"):
            feats.append("offset=2^%s" % i["off"])
        if i.get("lab", "int") != "int":
            feats.append("labels=%s" % i["lab"])
        if e.get("status") != "ok":
            feats.append("status=%s" % e.get("status"))
        if kn == "poly" and k.get("dd", 1) != 1:
            kn = "poly(fractional degree)"
        return "%s %s kernel=%s%s" % (e["ev"], clause, kn, (" " + ",".join(feats)) if feats else "")
    if kn == "poly":
        return "%s %s kernel=poly deg=%s/%s gamma=%s/%s coef0=%s/%s" % (e["ev"], clause, k.get("deg"), k.get("dd", 1),
                                                                         k.get("gn"), k.get("gd"), k.get("cn"), k.get("cd"))
    return "%s %s kernel=%s" % (e["ev"], clause, kn)


def describe(e, clause):
    i = e.get("in", {})
    if e["ev"] in ("SvcFit", "SvcBatch"):
        return ("SVC clause %s fails: n=%d kernel=%s C=%s/%s epochs=%s schedule=%s status=%s"
                % (clause, len(i["X"]), i["kernel"]["name"], i["Cn"], i["Cd"], i["epochs"],
                   json.dumps(i["sched"]) if len(i["X"]) <= 6 else "(%d orders)" % len(i["sched"]), e["status"]))
    if e["ev"] in ("SvrFit", "SvrBatch"):
        return ("SVR clause %s fails: n=%d kernel=%s C=%s/%s eps16=%s tol16=%s status=%s"
                % (clause, len(i["X"]), i["kernel"]["name"], i["Cn"], i["Cd"], i["eps16"], i["tol16"], e["status"]))
    return "kernel clause %s fails on %s" % (clause, json.dumps(i)[:300])


def validate(ctx, files, must_hit_all):
    """trace-validate several ndjson files, up to four TLC processes side by side"""
    def one(f):
        return ctx.tlc_trace("svm/SvmTrace.tla", "svm/SvmTrace.cfg", f, timeout=3000, heap="3g")
    with ThreadPoolExecutor(max_workers=4) as ex:
        results = list(ex.map(one, files))
    hits = {}
    bads = []
    for f, (v, b) in zip(files, results):
        for k, n in v.get("hits", {}).items():
            hits[k] = hits.get(k, 0) + n
        evs = vlib.read_ndjson(f)
        for (l, run, ev, clause) in b:
            bads.append((evs[l - 1], clause))
    for h in must_hit_all:
        if hits.get(h, 0) == 0:
            raise vlib.ToolError("vacuous run: clause / case %s never exercised" % h)
    return hits, bads


def split(ctx, path, chunk):
    evs = vlib.read_ndjson(path)
    if len(evs) <= chunk:
        return [path], evs
    out = []
    for a in range(0, len(evs), chunk):
        p = path.replace(".ndjson", "-%03d.ndjson" % (a // chunk))
        vlib.write_ndjson(p, evs[a:a + chunk])
        out.append(p)
    return out, evs


MUST_HIT = ("SvcFit", "SvcSched", "SvcRand", "SvcUnseeded", "Svc_linear", "Svc_rbf", "Svc_poly", "Svc_sigmoid",
            "SvcBoundAndInside", "SvcDupRows", "SvcExpansion", "SvcSparse",
            "SvrFit", "Svr_linear", "Svr_rbf", "Svr_poly", "SvrKKT", "SvrZeroWeight", "SvrFree", "SvrAtC",
            "SvrBoundAndInside", "SvrDupRows", "SvrExpansion",
            "K_linear", "K_rbf", "K_poly", "K_sigmoid", "RbfTaylor", "SigTaylor",
            "KRoot2", "KRoot4", "KRootUndefined", "FitRootClosed",
            "SvrNarrowBand", "SvrBandSkewed", "SvrConstantTargets", "SvrNoSv", "SvrNoSvKKT",
            "SvcApi", "SvrApi", "SvcLarge", "SvrLargeDense",
            "RbfOffset", "RbfGramOffset", "SvcRbfOffset", "SvrRbfOffset",
            "SvcFloatLabels", "SvcLab_unit", "SvcLab_zero", "SvcLab_eps", "SvcLab_adjacent", "SvcLab_huge",
            "SvcLab_tiny", "SvcLab_negzero",
            "SvcBatch", "SvcBatchOver256", "SvcBatchOver1024", "SvrBatch", "SvrBatchOver256", "SvrBatchOver1024",
            "Gram_linear", "Gram_rbf", "Gram_sigmoid", "RbfFunctional", "SigAddition", "GramSingular")


def run(ctx):
    ctx.build()
    # ---- design models --------------------------------------------------------------------
    sched_cfgs = ["quick"] + (["thorough", "thorough5"] if ctx.thorough else [])
    sched_lines = []
    for c in sched_cfgs:
        r, prints = ctx.tlc_mc("svm/SvmSchedule.tla", "svm/SvmScheduleMC_%s.cfg" % c, must_cover=("Draw",),
                               keep_prints=True, workers=4)
        lines = [p[1] for p in prints if p[0] == "REPLAY"]
        if not lines:
            raise vlib.ToolError("SvmSchedule printed no REPLAY line")
        sched_lines += lines
    ctx.tlc_mc("svm/LasvmMC.tla", "svm/LasvmMC_%s.cfg" % ctx.tier, timeout=1500,
               must_cover=("DrawInit", "InitVisit", "InitEnd", "DrawEpoch", "Visit", "Reprocess", "ReprocessEnd",
                           "EpochEnd", "FinishStep", "FinishEnd"))
    ctx.tlc_mc("svm/SvrSmoMC.tla", "svm/SvrSmoMC_quick.cfg", must_cover=("Iterate",))
    ctx.tlc_mc("svm/SvrSmoMC.tla", "svm/SvrSmoMC_%s.cfg" % ("thorough" if ctx.thorough else "anysign"),
               must_cover=("Iterate",))
    # ---- spec -> impl: inject every enumerated schedule -------------------------------------
    # TLC prints in a worker-dependent order; sort so that a seed determines the run completely
    sched_lines.sort(key=lambda l: (lambda d: (d["n"], d["epochs"], d["orders"]))(json.loads(l)))
    sfile = ctx.path("c10-schedules.ndjson")
    with open(sfile, "w") as f:
        for l in sched_lines:
            json.loads(l)
            f.write(l + "\n")
    f_sched = ctx.path("c10-svc-sched.ndjson")
    ctx.harness("replay-spec", sfile, f_sched)
    # ---- impl -> spec: seeded generators ------------------------------------------------------
    f_svc = ctx.path("c10-svc-rand.ndjson")
    f_svr = ctx.path("c10-svr.ndjson")
    f_ker = ctx.path("c10-kernel.ndjson")
    ctx.harness("gen-svc", f_svc)
    ctx.harness("gen-svr", f_svr)
    ctx.harness("gen-kernel", f_ker)
    files = []
    events = []
    for p in (f_sched, f_svc, f_svr, f_ker):
        fs, evs = split(ctx, p, 8000)
        files += fs
        events += evs
    n_sched = sum(1 for e in events if e["ev"] == "SvcFit" and e.get("src") == "sched")
    if n_sched < len(sched_lines):
        raise vlib.ToolError("only %d schedule fits for %d enumerated schedules" % (n_sched, len(sched_lines)))
    hits, bads = validate(ctx, files, MUST_HIT)
    if hits.get("BadSchedule", 0):
        raise vlib.ToolError("harness injected %d malformed schedules" % hits["BadSchedule"])
    if hits.get("BadBatch", 0):
        raise vlib.ToolError("harness emitted %d malformed batch events" % hits["BadBatch"])
    if hits.get("Unknown", 0):
        raise vlib.ToolError("unknown events in the trace")
    # the model says the trainer draws exactly 1 + epochs orders; a different consumption of the
    # injected queue is a disagreement with the design model, not a violation of the property
    ctx.drift += hits.get("Drift", 0)
    if hits.get("Drift", 0):
        vlib.log("MODEL-DRIFT: %d fits did not consume exactly 1+epochs visiting orders" % hits["Drift"])
    for (e, clause) in bads:
        ctx.report(key_of(e, clause), describe(e, clause), [e])
    ctx.evaluations = len(events)
    ctx.traces = sum(1 for e in events if e["ev"] in FIT_EVENTS)
    nt = set()
    for e in events:
        if at_bound_and_inside(e):
            nt.add(vlib.digest(e["in"]))
    sm = [e for e in events if e["ev"] == "SvcFit" and e.get("src") == "sched"][:1]
    sm += [e for e in events if e["ev"] == "SvrFit" and len(e["in"]["X"]) <= 6][:1]
    sm += [e for e in events if e["ev"] == "Gram" and e["in"]["kernel"]["name"] == "rbf"][:1]
    sm += [e for e in events if e["ev"] == "K" and e["in"]["kernel"]["name"] == "poly"][:1]
    ctx.samples = sm
    ctx.extra["schedules_enumerated_and_injected"] = len(sched_lines)
    ctx.extra["clause_hits"] = hits
    ctx.extra["skipped_32bit"] = {"svc_expansion": hits.get("SvcExpSkipped", 0),
                                  "svr_expansion": hits.get("SvrExpSkipped", 0),
                                  "svr_kkt_non_psd_or_range": hits.get("SvrKKTSkipped", 0),
                                  "poly_closed_form": hits.get("KSkipped", 0)}
    ctx.extra["not_covered"] = [
        "closed-form VALUES of RBF / sigmoid beyond 2^-9..2^-14 (pinned by range, exact order, functional "
        "equations and Taylor enclosures only)",
        "fractional polynomial degrees other than multiples of 1/4; fractional powers of negative bases (NaN: statement silent)",
        "positive semi-definiteness as such (necessary conditions: diagonal, 2x2 minors, v'Kv for v in {-1,0,1}^n, n<=6)",
        "kernel-expansion identity finer than ~ sum|K|/2 * 2^-10 (32-bit products)",
        "schedules of training sets with more than 5 rows are sampled (seeded), not enumerated",
        "f32 models",
    ]
    ctx.assumptions = [
        "features are integers in -4..4; C, epsilon, tol, gamma, coef0 are dyadic (or small integers), so inputs are exact",
        "support vectors are matched to training rows by feature equality (injective assignment), the model stores no row index",
        "the schedule hook (cfg smartcore_verif) replaces only the source of the permutation, not its use",
        "decision values used by the KKT clause are those returned by SVR::predict on the training rows",
    ]
    return ctx.finish(RULE, len(nt), exhaustive=False,
                      explanation="exhaustive over visiting-order schedules for the n<=5 table sets (every schedule "
                                  "executed in the real trainer); sampled for larger sets and for data / parameters")


def replay(ctx, path):
    """Re-validate the recorded events, then re-execute them from their recorded inputs against the
    current tree and validate again.  Exit 1 iff the current tree still fails (for fits that were
    left to the unseedable RNG the recorded outcome is all there is, so it decides)."""
    d = json.load(open(path))
    evs = d["events"]
    f = ctx.path("replay-recorded.ndjson")
    vlib.write_ndjson(f, evs)
    rc = 0
    v, bads = ctx.tlc_trace("svm/SvmTrace.tla", "svm/SvmTrace.cfg", f, tag="replay-recorded")
    for b in bads:
        e = evs[b[0] - 1]
        unrepeatable = e.get("ev") == "SvcFit" and not e.get("in", {}).get("sched")
        print("REPLAY-BAD recorded%s" % (" (unseeded fit: cannot be re-executed)" if unrepeatable else ""), b)
        if unrepeatable:
            rc = 1
    ctx.build()
    g = ctx.path("replay-rerun.ndjson")
    ctx.harness("rerun", f, g)
    v, bads = ctx.tlc_trace("svm/SvmTrace.tla", "svm/SvmTrace.cfg", g, tag="replay-rerun")
    for b in bads:
        print("REPLAY-BAD re-executed", b)
        rc = 1
    if rc == 0:
        print("REPLAY-OK: the current tree satisfies every clause on the recorded inputs")
    return rc
