"""C19 — every model survives a serialise/deserialise round trip unchanged; model equality is
meaningful.  DESIGN.md §3 C19.  Specification: spec/serde/RoundTrip.tla (history machine + verdict
operators), RoundTripMC.tla (abstract implementation with injected faults), RoundTripTrace.tla."""
import json

import vlib

LEVEL = "exploration"

RULE = ("one history Built -> {Ser, De, Eq(restored)} x {bincode, json[, json with permuted keys]} -> Eq(self) -> "
        "{Alt(refit | other: independent / translated / rows-only), Eq} -> End per object, for every serialisable public "
        "type (5 linear models, logistic, k-NN x2, trees x2, forests x2, 4 naive Bayes, SVC/SVR x 4 kernels, k-means, "
        "DBSCAN, PCA, SVD (every public output-producing method of each, incl. predict_oob of forests fitted with keep_samples), cover tree, linear search, 5 distances, 4 kernels, DenseMatrix<f32/f64> of every shape "
        "1..5 x 1..5) fitted on seeded integer-valued random data of random shape and observed on a fresh query matrix. "
        "A history is non-trivial when the original answered the query with at least two distinct output values, both "
        "formats restored an object, and (for a type with PartialEq) at least one model fitted on other data was "
        "observably different; distinct = distinct (type, configuration, digest of the training rows)")

MC_COVER = ["Build", "Ser", "De", "EqRestored", "EqSelf", "Alt", "EqAlt", "Finish",
            "Detect_serFail", "Detect_deFail", "Detect_deCorruptBits", "Detect_deDropsHidden", "Detect_deDropsAux", "Detect_jsonSloppy",
            "Detect_jsonDiscrete", "Detect_eqSubset", "Detect_eqNotReflexive", "Detect_eqPanics", "Detect_nondetFit"]

MUST_HIT = ("Built", "BuiltNoEq", "SerBincode", "SerJson", "DeBincode", "DeJson", "DeJsonPermuted", "EqSelf",
            "EqRestoredBincode", "EqRestoredJson", "EqRefit", "EqRefitNondet", "EqOtherDemanded", "EqOtherUnconstrained",
            "Alt", "End")

WHAT = {
    "SerFails": "serialisation failed for an object built from finite data",
    "DeFails": "deserialisation of the library's own output failed",
    "RestoredRefuses": "the restored object refuses (error / panic) a public method call the original answered",
    "BincodeBits": "through bincode the restored object's outputs are not bit-identical",
    "JsonDiscrete": "through JSON a discrete output (label / index / shape) of the restored object differs",
    "JsonValues": "through JSON a continuous output of the restored object differs by more than the rounding slack",
    "EqPanics": "== panicked where the statement fixes its result",
    "EqSelf": "object != itself",
    "EqRestored": "original != restored copy",
    "EqRefit": "deterministic estimator: model != second fit on the same data",
    "EqOther": "model == a model fitted on different rows (and targets) although their outputs on the query differ",
}


def answered(o):
    """the per-method parts of an observation that were answered"""
    return [p for p in o.get("parts", []) if p["status"] == "ok"] if o["status"] == "ok" else []


def differ(o1, o2):
    if o1["status"] != "ok" or o2["status"] != "ok" or len(o1["parts"]) != len(o2["parts"]):
        return False
    return any(p["status"] == "ok" and q["status"] == "ok" and any(p[k] != q[k] for k in ("dh", "dl", "ch", "cl", "shape"))
               for p, q in zip(o1["parts"], o2["parts"]))


def _is_nan(hi, lo):
    hi &= 0xffffffff
    return (hi & 0x7ff00000) == 0x7ff00000 and ((hi & 0x000fffff) != 0 or (lo & 0xffffffff) != 0)


def state_class(built):
    """'NaN' / '-inf' when a read accessor of the ORIGINAL returned such a value (the stored state contains it), else ''"""
    nan = inf = False
    for q in answered(built["obs"]):
        if q["name"] in ("predict", "predict_oob", "main", "transform", "decision_function", "distance"):
            continue
        for ok, hi, lo in zip(q["cok"], q["ch"], q["cl"]):
            if not ok:
                if _is_nan(hi, lo):
                    nan = True
                else:
                    inf = True
    return "NaN" if nan else ("-inf" if inf else "")


HOWS = {"shift": "translated", "indep": "independent", "rowsonly": "rows-only-changed", "prefix": "a strict prefix of the",
        "extension": "a strict extension of the", "mirror": "mirror-topology"}


def key_of(built, e, clause, alt, alt_ev=None):
    t = built["type"]
    sc = state_class(built)
    if clause == "DeFails" and e.get("fmt") in ("json", "jsonperm") and built.get("jdepth", 0) > 127:
        return "json: serialised form nested deeper than serde_json's 128-level recursion limit (%s)" % t
    if clause == "EqOther" and (sc == "NaN" or (alt_ev is not None and state_class(alt_ev) == "NaN")):
        return "eq: NaN-blind ==, a %s whose state contains NaN equals a different model" % t
    if clause in ("DeFails", "SerFails") and e.get("fmt") in ("json", "jsonperm") and sc:
        # the configuration is part of the input class only where it causes the value (no smoothing)
        return "json: model state contains %s (%s%s)" % (sc, t, " " + built["cfg"] if built["cfg"].startswith("alpha") else "")
    if clause in ("EqSelf", "EqRestored", "EqRefit") and sc == "NaN":
        return "eq: model state contains NaN (%s %s)" % (t, built["cfg"])
    if clause == "EqOther":
        rev = alt.endswith("-rev")
        a = alt[:-4] if rev else alt
        return "%s: == holds against a model fitted on %s data whose predictions differ%s" % (
            t, HOWS.get(a, a), " (other == model)" if rev else "")
    return "%s [%s]: %s %s" % (t, built["cfg"], clause, e.get("fmt", "-"))


def nontrivial(hist):
    b = hist[0]
    o = b["obs"]
    parts = answered(o)
    if not parts:
        return False
    vals = set()
    for p in parts:
        vals |= set(zip(p["dh"], p["dl"])) | set(zip(p["ch"], p["cl"]))
    if len(vals) < 2:
        return False
    des = [e for e in hist if e["ev"] == "De" and e["status"] == "ok"]
    if len(set(e["fmt"] for e in des)) < 2:
        return False
    if not b["hasEq"]:
        return True
    for e in hist:
        if e["ev"] == "Alt" and e["role"] == "other" and e["status"] == "ok" and differ(o, e["obs"]):
            return True
    return False


def validate(ctx, f, must_hit=()):
    events = vlib.read_ndjson(f)
    v, bads = ctx.tlc_trace("serde/RoundTripTrace.tla", "serde/RoundTripTrace.cfg", f, must_hit=must_hit, timeout=2400)
    if v.get("open"):
        raise vlib.ToolError("trace ended inside a history")
    return events, v, bads


def run(ctx):
    ctx.build()
    # design level: the verdict operators accept the correct abstract implementation and reject every fault class
    cover = list(MC_COVER) + (["Detect_deCorruptJson"] if ctx.thorough else [])
    ctx.tlc_mc("serde/RoundTripMC.tla", "serde/RoundTripMC_%s.cfg" % ctx.tier, must_cover=cover, timeout=1500)
    # impl -> spec
    f = ctx.path("c19-models.ndjson")
    ctx.harness("gen-models", f)
    events, v, bads = validate(ctx, f, MUST_HIT)
    hist = {}
    for e in events:
        hist.setdefault(e["run"], []).append(e)
    # vacuity: the auxiliary methods must actually have been answered by some original object
    for (ty, part) in (("RandomForestClassifier", "predict_oob"), ("RandomForestRegressor", "predict_oob"),
                       ("SVC", "decision_function"), ("PCA", "components"), ("GaussianNB", "theta")):
        n = sum(1 for h in hist.values() if h[0]["type"] == ty
                and any(q["name"] == part for q in answered(h[0]["obs"])))
        if n == 0:
            raise vlib.ToolError("vacuous run: no %s object answered %s" % (ty, part))
    for (l, runid, ev, clause) in bads:
        if clause == "Protocol":
            raise vlib.ToolError("recorder produced an event the protocol does not admit at line %d" % l)
        e = events[l - 1]
        h = hist[runid]
        built = h[0]
        alt = e.get("fmt") if ev == "Eq" and e.get("kind") in ("other", "refit") else None
        alt_ev = events[l - 2] if alt is not None and l >= 2 and events[l - 2]["ev"] == "Alt" else None
        ctx.report(key_of(built, e, clause, alt, alt_ev),
                   "%s [%s], n=%d p=%d: %s" % (built["type"], built["cfg"], built["n"], built["p"], WHAT.get(clause, clause)), h)
    drift = v.get("hits", {}).get("StateDrift", 0)
    if drift:
        ctx.drift += drift
        vlib.log("MODEL-DRIFT property=C19: %d restored objects whose serialised state differs from the original's "
                 "although every clause of the property holds" % drift)
    hits = v.get("hits", {})
    ctx.evaluations = len(events)
    ctx.traces = len(hist)
    nt = set()
    types = set()
    for h in hist.values():
        types.add(h[0]["type"])
        if nontrivial(h):
            nt.add((h[0]["type"], h[0]["cfg"], tuple(h[0]["xd"])))
    ctx.extra["types_driven"] = sorted(types)
    ctx.extra["unconstrained"] = {k: hits.get(k, 0) for k in ("EqOtherUnconstrained", "EqOtherSilentButEqual", "EqRefitNondet",
                                                             "EqRestoredRounded", "DeUnconstrained", "AltFitFails", "BuiltNoEq")}
    silent = {}
    for h in hist.values():
        for i, e in enumerate(h):
            if e["ev"] == "Eq" and e["kind"] == "other" and e["fmt"] == "rowsonly" and e["status"] == "ok" and e["result"]:
                if differ(h[0]["obs"], h[i - 1]["obs"]):
                    silent[h[0]["type"]] = silent.get(h[0]["type"], 0) + 1
    # outside the statement (other rows, SAME targets): recorded as information only
    ctx.extra["equal_to_model_on_other_rows_same_targets"] = silent
    if silent:
        vlib.log("[info] == holds against a model fitted on other rows but the same targets (statement silent): %s" % silent)

    def slim(h):
        out = []
        for e in h:
            e = dict(e)
            for k in ("obs",):
                if k in e:
                    o = dict(e[k])
                    o["parts"] = [dict(q, **{kk: q[kk][:3] for kk in ("dh", "dl", "ch", "cl", "cfx", "cok")}) for q in o["parts"]]
                    e[k] = o
            out.append(e)
        return out
    samples = []
    for want in ("DBSCAN", "DenseMatrix", "RandomForestClassifier"):
        for h in hist.values():
            if h[0]["type"] == want and (want != "DenseMatrix" or h[0]["cfg"] == "f32 2x3") \
                    and (want != "RandomForestClassifier" or h[0]["cfg"] == "keep-samples"):
                samples.append(slim(h))
                break
    ctx.samples = samples
    ctx.assumptions = [
        "objects are fitted on integer-valued data without degenerate columns / classes; single-point and all-identical "
        "neighbour-search inputs (known cover-tree construction defects, C04) are excluded",
        "JSON is parsed with serde_json's float_roundtrip (correctly rounded), so an f64 field survives JSON exactly; "
        "'up to decimal rounding' is applied to every continuous output (one unit of 2^-16 fixed point) and excuses "
        "original == restored only for f32 objects whose restored state digest differs",
        "observation = outputs of EVERY public output-producing method (predict, predict_oob on the training matrix, "
        "decision_function, transform, components/coefficients/intercept and the naive-Bayes accessors, find/find_radius, "
        "distance, apply) on ONE fresh random query matrix per object (6 rows); 'arbitrary inputs' is sampled, not proved",
        "types without PartialEq (distances, kernels, LinearKNNSearch) are checked for the observation clauses only",
        "the state digest (FNV-64 of the bincode bytes) identifies the serialised state up to hash collisions",
    ]
    return ctx.finish(RULE, len(nt), exhaustive=False,
                      explanation="DenseMatrix shapes 1..5 x 1..5 are enumerated exhaustively (values random); everything else is "
                                  "seeded random sampling. The abstract model RoundTripMC is explored exhaustively for its constants.")


def replay(ctx, path):
    d = json.load(open(path))
    f = ctx.path("replay.ndjson")
    vlib.write_ndjson(f, d["events"])
    events, v, bads = validate(ctx, f)
    for b in bads:
        print("REPLAY-BAD (recorded history)", b)
    rc = 1 if bads else 0
    # re-execute: the generator is a function of (seed, tier); pick the history with the same run number and type
    try:
        ctx.seed, ctx.tier = d.get("seed", ctx.seed), d.get("tier", ctx.tier)
        ctx.build()
        g = ctx.path("replay-regen.ndjson")
        ctx.harness("gen-models", g)
        run0 = d["events"][0]["run"]
        h = [e for e in vlib.read_ndjson(g) if e["run"] == run0]
        if h and h[0]["type"] == d["events"][0]["type"] and h[0]["xd"] == d["events"][0]["xd"]:
            f2 = ctx.path("replay-reexec.ndjson")
            vlib.write_ndjson(f2, h)
            _, _, bads2 = validate(ctx, f2)
            for b in bads2:
                print("REPLAY-BAD (re-executed)", b)
            rc = 1 if bads2 else 0
        else:
            print("re-execution did not reproduce the same object; verdict of the recorded history stands")
    except vlib.ToolError as e:
        print("re-execution failed: %s" % e)
    return rc
