"""C16 — data splitting never leaks.  DESIGN.md §3 C16."""
import vlib

LEVEL = "model_checking"

RULE = ("KFold::split for every 2<=k<=n<=N unshuffled (exhaustive) and repeated unseeded shuffles for n<=24; "
        "train_test_split for n<=40/100 x a table of f32 test sizes + random f32 sizes x shuffle on/off plus the panic "
        "cases; cross_validate / cross_val_predict with an instrumented estimator for n in 4..40/64, k in 2..8. "
        "An event is non-trivial when n mod k != 0, or it is shuffled, or it is a cross-validation run with >= 3 folds; "
        "distinct = distinct (ev, n, k, shuffle, kind/test_size) tuples")


def nontrivial(e):
    if e["ev"] == "KFold":
        return e["k"] >= 2 and (e["n"] % e["k"] != 0 or e["shuffle"])
    if e["ev"] == "TTS":
        return e["status"] == "ok" and (e["shuffle"] or e["tsM"] not in (1,))
    if e["ev"] == "CVStart":
        return e["k"] >= 3
    return False


def key_of(e):
    if e["ev"] == "KFold":
        return "kfold n=%d k=%d shuffle=%s built=%s consumed=%s" % (e["n"], e["k"], e["shuffle"], ["n_splits,shuffle", "shuffle,n_splits", "literal"][e.get("how", 0)],
                                                                  ["collect", "take+skip", "nth", "next+collect", "step_by"][e.get("via", 0)])
    if e["ev"] == "TTS":
        return "tts n=%d ny=%d ts=%d*2^%d shuffle=%s" % (e["n"], e["ny"], e["tsM"], e["tsE"], e["shuffle"])
    return "cv run"


def run(ctx):
    ctx.build()
    # design models
    ctx.tlc_mc("modelsel/KFold.tla", "modelsel/KFoldMC_%s.cfg" % ctx.tier, must_cover=("Sizes", "Cut", "Iter"))
    ctx.tlc_mc("modelsel/KFold.tla", "modelsel/KFoldMCsh_%s.cfg" % ctx.tier, must_cover=("Sizes", "Cut", "Iter"))
    ctx.tlc_mc("modelsel/CrossValMC.tla", "modelsel/CrossValMC_%s.cfg" % ctx.tier,
               must_cover=("Fit", "Predict", "Score", "Finish"), timeout=1500)
    # unbounded lemma on the fold-size arithmetic (TLAPS): sizes differ by <= 1, are >= 1, sum to n
    ctx.tlapm("modelsel/proofs/FoldSizes.tla")
    # impl -> spec
    files = []
    for mode in ("kfold", "tts", "cv"):
        f = ctx.path("c16-%s.ndjson" % mode)
        ctx.harness("gen-" + mode, f)
        files.append(f)
    allf = ctx.path("c16-all.ndjson")
    events = []
    for f in files:
        events += vlib.read_ndjson(f)
    vlib.write_ndjson(allf, events)
    v, bads = ctx.tlc_trace("modelsel/ModelSelTrace.tla", "modelsel/ModelSelTrace.cfg", allf,
                            must_hit=("KFold", "KFoldVia", "KFoldShuffled", "KFoldPanic", "TTS", "TTSPanic", "CVStartCustom", "Fit", "Predict", "Score", "CVDone",
                                      "EstimatorFailed", "CVDoneAfterFailure"))
    if v.get("live"):
        raise vlib.ToolError("trace ended inside a cross-validation run")
    ctx.evaluations = len(events)
    ctx.traces = len(set(e["run"] for e in events if e["ev"] in ("KFold", "TTS", "CVStart"))) \
        if False else sum(1 for e in events if e["ev"] in ("KFold", "TTS", "CVStart"))
    for (l, runid, ev, clause) in bads:
        e = events[l - 1]
        if ev in ("KFold", "TTS"):
            ctx.report(key_of(e), "%s fails on %s" % (clause, key_of(e)), [e])
        else:
            runev = [x for x in events if x.get("run") == runid and x["ev"] not in ("KFold", "TTS")]
            start = runev[0]
            ctx.report("cv kind=%s n=%d k=%d shuffle=%s built=%s splitter=%s at %s" % (start["kind"], start["n"], start["k"], start["shuffle"], ["n_splits,shuffle", "shuffle,n_splits", "literal"][start.get("how", 0)], "custom" if start.get("custom") else "KFold", ev),
                       "%s fails at event %d of a cross-validation run" % (clause, l), runev)
    nt = set()
    for e in events:
        if nontrivial(e):
            nt.add((e["ev"], e["n"], e.get("k"), e.get("shuffle"), e.get("kind"), e.get("tsM"), e.get("tsE")))
    samples = [x for x in events if x["ev"] == "KFold" and x["n"] == 7 and x["k"] == 3][:1]
    samples += [x for x in events if x["ev"] == "TTS" and x["n"] == 10 and x["tsM"] == 13421773][:1]
    cvs = [x for x in events if x["ev"] == "CVStart" and x["n"] == 7 and x["k"] == 3 and x["shuffle"]]
    if cvs:
        samples.append(vlib.events_of_run(events, cvs[0]["run"]))
    ctx.samples = samples
    ctx.assumptions = ["row identity is carried in column 0 of x; targets are id+const",
                       "shuffled splits are sampled (unseeded thread_rng), not enumerated"]
    return ctx.finish(RULE, len(nt), exhaustive=False)


def replay(ctx, path):
    import json
    d = json.load(open(path))
    f = ctx.path("replay.ndjson")
    vlib.write_ndjson(f, d["events"])
    v, bads = ctx.tlc_trace("modelsel/ModelSelTrace.tla", "modelsel/ModelSelTrace.cfg", f)
    for b in bads:
        print("REPLAY-BAD", b)
    return 1 if bads else 0
