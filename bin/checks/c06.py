"""C06 — random forests are seed-reproducible and aggregate their trees faithfully.
DESIGN.md §3 C06.  Specification: spec/tree/Forest.tla (predicates), ForestAgg.tla,
ForestBoot.tla, ForestHist.tla (design models), ForestTrace.tla (trace validation)."""
import json

import vlib

LEVEL = "model_checking"

RULE = ("impl->spec: seeded random training sets (4..120 rows, 1..6 features, integers or sixteenths: small values "
        "with many repeats / constant columns / pairwise-distinct columns; 2..4 classes with arbitrary label values "
        "incl. single-row classes and float label sets (closer than machine epsilon, non-integer, colliding under truncation, "
        "adjacent floats, 1e+-300, -0.0 with 0.0; recorded as order-preserving codes), feature columns symmetric about zero "
        "(+-1, {-2,-1,1,2}, centred ranks: thresholds exactly 0.0), or integer / dyadic / arbitrary real targets; forest == forest "
        "and forest == refit observed on every first fit), n_trees 1..30, m in {None,1..p}, max_depth {None,1..8}, "
        "min_samples_leaf 1..5, min_samples_split 0..8, 3 criteria, keep_samples on/off, seeds incl. 0, 1, 2^64-1; "
        "every setting is fitted with two seeds, twice each, interleaved (A B A B; first fits through the inherent fit/predict, "
        "second fits through the api traits SupervisedEstimator::fit / Predictor::predict), the earliest keys again at the "
        "end of the session; systematic families: every n in 4..120 with class sizes 1/(n-1) and 1/2/3/(n-6) (thorough more), "
        "few-tree forests (1..4 trees, kept samples), float label sets on small-class profiles, deep chains (reg: y = ratio^x, "
        "110..260 rows, member trees 70..130 levels, per-row power-of-two scale; harness-assembled 70..140-level decision chains, "
        "cls and reg), a size ladder n / batch length in {63,64,65,...,511,512,513} (thorough ..1025, 3000); first fits are observed completely (serde dump: trees[], samples[]; every member "
        "tree's public predict; predict on training + unseen rows; predict_oob).  spec->impl: every terminal "
        "state of the ForestAgg model is assembled as a real forest through serde and run through the real "
        "predict/predict_oob.  A fitted forest is non-trivial when some row's vote is not unanimous (cls) / "
        "member trees disagree (reg), or some training row is out-of-bag for some but not all trees; an assembled "
        "forest when its votes are not unanimous or its membership bits are mixed; distinct = distinct "
        "(key) resp. distinct model state")

FIT_HITS = ("FirstFit", "Refit", "FitCls", "FitReg", "Kept", "NotKept", "InBagFit",
            "FewTreesKept", "RegRowWithoutOobTree", "RelativeRows", "AssembledDeep")


def row_stats(o):
    """measurement only: (non-unanimous rows, top-tie rows, partially-OOB rows, rows without OOB tree)"""
    T = o["trees"]
    tp = o["treePred"]
    nonun = tie = part = none = 0
    for r in range(o["nAll"]):
        votes = [tp[t][r] for t in range(T)]
        vs = set(votes)
        if len(vs) > 1:
            nonun += 1
            if o["kind"] == "cls":
                cnt = sorted((votes.count(v) for v in vs), reverse=True)
                if cnt[0] == cnt[1]:
                    tie += 1
    if o["hasMask"]:
        for r in range(o["nTrain"]):
            k = sum(1 for t in range(T) if not o["mask"][t][r])
            if k == 0:
                none += 1
            elif k < T:
                part += 1
    return nonun, tie, part, none


def describe(e):
    if e["ev"] == "ForestFit":
        i = e["in"]
        return ("%s forest, n=%d p=%d n_trees=%d m=%d max_depth=%d min_samples_leaf=%d min_samples_split=%d "
                "criterion=%d keep_samples=%s seed=%s" % (i["kind"], i["n"], i["p"], i["nTrees"], i["m"], i["maxDepth"],
                                                           i["msl"], i["mss"], i["crit"], i["keep"], i["seed"]))
    if e["ev"] == "ForestRefit":
        return "second fit of key %s (through the api traits SupervisedEstimator::fit / Predictor::predict)" % e["key"]
    o = e["obs"]
    if e["ev"] == "ForestAsm":
        return "assembled %s forest of %d decision chains, %d levels deep (harness-generated)" % (o["kind"], o["trees"], o["nTrain"])
    return "assembled %s forest of %d trees over %d rows (ForestAgg terminal state)" % (o["kind"], o["trees"], o["nTrain"])


def kind_of(e, events):
    if e["ev"] == "ForestFit":
        return e["in"]["kind"]
    if e["ev"] in ("ForestObs", "ForestAsm"):
        return e["obs"]["kind"]
    return e["base"].split(":")[1]


def report_bads(ctx, bads, events, origin):
    by_key = {}
    for e in events:
        if e["ev"] == "ForestFit":
            by_key[e["key"]] = e
    per_key = {}
    per_group = {}
    for (l, runid, ev, clause) in bads:
        e = events[l - 1]
        if clause == "Assemble":
            # not a property clause: the assembled forest is not the one the model asked for.
            # A tool error, but only if nothing else explains it (see run()).
            ctx.extra["assemble_failures"] = ctx.extra.get("assemble_failures", 0) + 1
            continue
        stored = [e]
        if ev == "ForestRefit" and e["key"] in by_key:
            stored = [by_key[e["key"]], e]
        if ev == "ForestAsm":
            origin = "assembled"
        key = "%s: %s forest, %s" % (clause, kind_of(e, events), origin if ev != "ForestRefit" else "refit")
        what = "%s fails on %s" % (clause, describe(e))
        if clause == "EqualFits":
            what = ("forest == forest is %s and forest == (second forest fitted with the same data, parameters and seed) is %s for %s"
                    % (e["eqSelf"], e["eqRefit"], describe(e)))
        if clause == "OobAnswers":
            st = e["obs"]["oobStatus"]
            if origin == "assembled":
                key = "OobAvailable: %s forest given samples[] through Deserialize refuses predict_oob" % kind_of(e, events)
            else:
                key = "OobAvailable: fitted %s forest with keep_samples=true refuses predict_oob" % kind_of(e, events)
            what = "predict_oob on the training matrix returned %s for %s" % (st, describe(e))
        elif clause == "SamplesObservable":
            key = ("samples not observable (Stratified / InBagFit / OOB membership): %s %s forest, serde dump lacks one "
                   "mask per member tree" % (origin, kind_of(e, events)))
            o = e["obs"]
            what = ("the serde dump of %s has %s samples[] (%d rows for %d trees); the bootstrap membership the property "
                    "speaks of cannot be observed" % (describe(e), "a malformed" if o["hasMask"] else "no",
                                                      len(o["mask"]), o["trees"]))
        group = key
        if ev == "ForestFit" and e["in"]["kind"] == "cls" and clause in ("Stratified", "InBagFit", "OobOK", "VoteOK", "LabelsOK"):
            # the class-size profile is part of the failing input class (a stratum of one row
            # among n rows is a different case from a balanced split)
            key += ", class sizes %s of n=%d" % ("/".join(str(c) for c in e["in"]["classSizes"]), e["in"]["n"])
        per_key[key] = per_key.get(key, 0) + 1
        per_group[group] = per_group.get(group, 0) + 1
        if per_key[key] > 3 or per_group[group] > 12:   # a few replay artefacts per failing class are enough
            continue
        ctx.report(key, what, stored)
    for g, c in sorted(per_group.items()):
        if c > 3:
            profiles = sorted(k[len(g):].lstrip(", ") for k in per_key if k.startswith(g) and len(k) > len(g))
            vlib.log("  (%d events in all fail [%s]%s)" % (c, g, ("; profiles: " + "; ".join(profiles[:40])) if profiles else ""))


def run(ctx):
    ctx.build()
    tier = ctx.tier
    # ---- design models
    ctx.tlc_mc("tree/ForestBoot.tla", "tree/ForestBootMC_%s.cfg" % tier, must_cover=("Draw", "NextClass"))
    ctx.tlc_mc("tree/ForestHist.tla", "tree/ForestHistMC_%s.cfg" % tier, must_cover=("Fit",))
    ctx.tlc_mc("tree/ForestHist.tla", "tree/ForestHistMCdet_%s.cfg" % tier, must_cover=("Fit",))
    _, prints = ctx.tlc_mc("tree/ForestAgg.tla", "tree/ForestAggMC_%s.cfg" % tier, timeout=1200,
                           must_cover=("TallyP", "DecideP", "OobErr", "TallyO", "DecideO"), keep_prints=True)
    cases = [json.loads(s) for (tag, s) in prints if tag == "REPLAY"]
    if len(cases) < 1000:
        raise vlib.ToolError("ForestAgg printed only %d terminal states" % len(cases))
    # ---- spec -> impl: assemble every terminal state as a real forest, run the real aggregation
    fcases = ctx.path("c06-agg-cases.ndjson")
    vlib.write_ndjson(fcases, cases)
    fobs = ctx.path("c06-agg-obs.ndjson")
    ctx.harness("replay-spec", fcases, fobs)
    obs_events = vlib.read_ndjson(fobs)
    if len(obs_events) != len(cases):
        raise vlib.ToolError("replay-spec returned %d events for %d cases" % (len(obs_events), len(cases)))
    v1, bads1 = ctx.tlc_trace("tree/ForestTrace.tla", "tree/ForestTrace.cfg", fobs,
                              must_hit=("Assembled", "AssembledOobErr"), timeout=2400)
    ctx.drift += v1["hits"].get("Drift", 0)
    if ctx.drift:
        vlib.log("MODEL-DRIFT property=C06: %d assembled forests satisfy the predicates but differ from ForestAgg's output"
                 % ctx.drift)
    report_bads(ctx, bads1, obs_events, "assembled")
    # ---- impl -> spec: real fits
    ffits = ctx.path("c06-fits.ndjson")
    ctx.harness("gen-fits", ffits)
    events = vlib.read_ndjson(ffits)
    v2, bads2 = ctx.tlc_trace("tree/ForestTrace.tla", "tree/ForestTrace.cfg", ffits, must_hit=FIT_HITS, timeout=2400)
    report_bads(ctx, bads2, events, "fitted")

    # ---- measurement for the evidence file and vacuity guards on the generator
    nt_fit = set()
    tot = dict(nonunanimous_rows=0, top_tie_rows=0, partially_oob_rows=0, rows_without_oob_tree=0,
               single_row_class_fits=0, oob_unavailable_fits=0, real_target_fits=0, fractional_feature_fits=0)
    digests_by_base = {}
    sample_tie = sample_big = None
    deepest = 0
    for e in events:
        if e["ev"] == "ForestAsm":
            continue
        digests_by_base.setdefault(e["base"], set()).add(e["fdigest"])
        if e["ev"] != "ForestFit" or e["status"] != "ok":
            continue
        o = e["obs"]
        if e["in"]["family"] == "deep":
            deepest = max(deepest, o.get("treeDepth", 0))
        if not (o["tpOk"] and len(o["treePred"]) == o["trees"] and all(len(x) == o["nAll"] for x in o["treePred"])):
            continue
        if o["hasMask"] and not (len(o["mask"]) == o["trees"] and all(len(x) == o["nTrain"] for x in o["mask"])):
            continue
        nonun, tie, part, none = row_stats(o)
        tot["nonunanimous_rows"] += nonun
        tot["top_tie_rows"] += tie
        tot["partially_oob_rows"] += part
        tot["rows_without_oob_tree"] += none
        if o["kind"] == "cls" and min(o["y"].count(c) for c in set(o["y"])) == 1:
            tot["single_row_class_fits"] += 1
        if not o["keep"]:
            tot["oob_unavailable_fits"] += 1
        tot["real_target_fits"] += o["ySlack"]
        tot["fractional_feature_fits"] += 1 if e["in"]["xDen"] != 1 else 0
        if nonun or part:
            nt_fit.add(e["key"])
        if tie and sample_tie is None and o["nAll"] <= 16 and o["trees"] <= 6:
            sample_tie = e
        if sample_big is None and o["nTrain"] >= 60 and o["trees"] >= 8:
            sample_big = {"ev": "ForestFit", "key": e["key"], "digest": e["digest"], "in": {k: v for k, v in e["in"].items() if k not in ("X", "Xq", "y", "yHex")},
                          "obs": "(%d x %d per-tree predictions, %d x %d membership bits elided)" % (o["trees"], o["nAll"], o["trees"], o["nTrain"])}
    # the systematic family must be complete: a single-row class at every row count of the range
    single_n = set(e["in"]["n"] for e in events if e["ev"] == "ForestFit" and e["status"] == "ok"
                   and e["in"]["kind"] == "cls" and e["in"]["keep"] and e["in"]["classSizes"][:1] == [1])
    missing = [n for n in range(4, 121) if n not in single_n]
    if missing:
        raise vlib.ToolError("vacuous run: no kept-samples classifier fit with a single-row class for n in %s" % missing)
    ctx.extra["single_row_class_with_kept_samples_at_every_n_4_120"] = True
    seed_sensitive = sum(1 for b, ds in digests_by_base.items() if len(ds) > 1)
    nt_asm = 0
    for e in obs_events:
        o = e["obs"]
        if e["status"] != "ok" or not o["tpOk"]:
            continue
        nonun, tie, part, none = row_stats(o)
        if nonun or part:
            nt_asm += 1
    if not ctx.violations and not ctx.known_hits:
        # tool-level complaints only when no property clause failed (a forest that stops
        # exposing its samples, say, empties the OOB counters: that is the violation's effect)
        if ctx.extra.get("assemble_failures"):
            raise vlib.ToolError("the harness could not assemble %d forests of ForestAgg states as asked"
                                 % ctx.extra["assemble_failures"])
        if deepest <= 70:
            raise vlib.ToolError("vacuous run: the deep-chain family produced no member tree deeper than 70 levels (max %d)" % deepest)
        for name in sorted(tot):
            if tot[name] == 0:
                raise vlib.ToolError("vacuous run: the generated fits contain no case of %s" % name)
        if seed_sensitive == 0:
            raise vlib.ToolError("vacuous run: no setting produced different forests for different seeds")
    ctx.evaluations = len(events) + len(obs_events)
    ctx.traces = sum(1 for e in events if e["ev"] in ("ForestFit", "ForestRefit", "ForestAsm")) + len(obs_events)
    ctx.extra["fits"] = {"real_fits": len(events), "keys": v2.get("keys"), "settings_whose_two_seeds_gave_different_forests": seed_sensitive,
                         "settings": len(digests_by_base)}
    ctx.extra["fits"].update(tot)
    ctx.extra["fits"]["deepest_fitted_member_tree"] = deepest
    fam = {}
    for e in events:
        if e["ev"] == "ForestFit":
            fam[e["in"]["family"]] = fam.get(e["in"]["family"], 0) + 1
    fam["assembled deep chains"] = sum(1 for e in events if e["ev"] == "ForestAsm")
    ctx.extra["fits"]["families"] = fam
    ctx.extra["assembled_forests"] = {"replayed": len(obs_events), "nontrivial": nt_asm, "exhaustive_over_model_scope": True}
    ctx.extra["not_covered"] = ["'all seeds (u64)' is sampled (edge seeds 0, 1, 2^64-1 always included), not enumerated",
                                "regression values are compared in fixed point 2^-16: deviations below ~2^-15 (a few ulps) are not decided",
                                "for arbitrary real targets the range clause grants one fixed-point unit (2^-16); |y| <= 200; f32 forests are not exercised",
                                "a classifier's OOB value for a row that no tree left out is unconstrained (a label cannot be told from a leaked in-bag vote)",
                                "which rows a member tree was really grown from is observable only through InBagFit (unlimited trees on "
                                "distinct-valued features reproduce their in-bag rows)"]
    samples = []
    if sample_tie is not None:
        samples.append(sample_tie)
    if sample_big is not None:
        samples.append(sample_big)
    samples.append(next(e for e in events if e["ev"] == "ForestRefit"))
    samples.append(obs_events[len(obs_events) // 2])
    ctx.samples = samples
    ctx.assumptions = [
        "the serde dump of a forest exposes its member trees (trees[]) and, with keep_samples, its bootstrap membership (samples[])",
        "a member tree deserialised from trees[] into the public DecisionTree* type predicts like the member tree itself",
        "digest = 128-bit FNV hash of the serde_json dump and of the bit patterns of all predictions (collisions ignored)",
        "the assembled forests of the spec->impl leg are built through the public Deserialize impl (decision chains on a row-id feature)",
    ]
    return ctx.finish(RULE, len(nt_fit) + nt_asm, exhaustive=False,
                      explanation="Design models ForestAgg/ForestBoot/ForestHist are exhaustive over their configured scopes and every "
                                  "ForestAgg terminal state is replayed through the real code; the fitted forests are a seeded sample.")


def replay(ctx, path):
    d = json.load(open(path))
    ctx.build()
    stored = ctx.path("replay-stored.ndjson")
    vlib.write_ndjson(stored, d["events"])
    v, bads = ctx.tlc_trace("tree/ForestTrace.tla", "tree/ForestTrace.cfg", stored, tag="trace-stored")
    for b in bads:
        print("REPLAY-BAD (stored events)", b)
    again = ctx.path("replay-again.ndjson")
    ctx.harness("replay-file", stored, again)
    n = sum(1 for _ in open(again))
    bads2 = []
    if n:
        v2, bads2 = ctx.tlc_trace("tree/ForestTrace.tla", "tree/ForestTrace.cfg", again, tag="trace-again")
        for b in bads2:
            print("REPLAY-BAD (re-executed against the current tree)", b)
        if not bads2:
            print("re-executed against the current tree: %d events, all accepted" % n)
    return 1 if (bads2 if n else bads) else 0
