"""C09 — logistic regression reaches the optimum of its penalised likelihood via L-BFGS.
DESIGN.md §3 C09.  Spec: spec/linear/LBFGS*.tla, Logistic*.tla.  Harness: harness/c09."""
import copy
import json
import os

import vlib

LEVEL = "model_checking"

RULE = ("(1) L-BFGS: seeded random strictly convex quadratics 1/2 x'Mx - b'x, M an integer SPD matrix of dimension 1..12 "
        "with prescribed integer spectrum (condition number 1..10^4; diagonal or conjugated by one/two integer Householder "
        "reflections), objective rescaled by 2^-30..2^30, starting points 0 or integer vectors times 2^-10..2^40, history "
        "1/3/10/20, quadratic or cubic back-tracking, default / zero / relative g_atol, budget 1000 or 1..4; every accepted "
        "iterate of the real LBFGS::optimize is an event.  A run is non-trivial when it has the full budget and made >= 3 "
        "accepted steps on a problem with condition number > 1.  (2) LogisticRegression::fit+predict on seeded training sets, "
        "n 6..60 (thorough 100), p 1..6, k 2..4 classes with arbitrary label values, features of scale 1/8..100 with shifts, "
        "layouts from identical to separable and exactly balanced, alpha in {0, 1/64 .. 10}; labels half-integers, adjacent floats "
        "(one ulp apart) or scaled by 2^+-40/200; DenseMatrix / ndarray / nalgebra back ends; inherent or api-trait fit/predict; "
        "four ways of building the parameters; preceded by the fixed training sets of the known findings, a ladder of single "
        "predict calls on 255..700 rows (2 and >= 3 classes) and training sets of 63..513 rows; one event per fit.  A fit is non-trivial when its "
        "scores fit the fixed-point budget, n >= 2(p+1) and alpha > 0.  distinct = distinct inputs (digest of the input fields)")

LB_TRACE = ("linear/LBFGSTrace.tla", "linear/LBFGSTrace.cfg")
LG_TRACE = ("linear/LogisticTrace.tla", "linear/LogisticTrace.cfg")
MODEL_ACTIONS = ("Start", "LoopTest", "TwoLoops", "LsFirst", "LsInf", "LsArmijo", "Step", "Assess", "Hessian", "NextIter")


def lb_key(start, clause):
    c = start["cond"]
    band = "1" if c == 1 else "<=10" if c <= 10 else "<=100" if c <= 100 else "<=1000" if c <= 1000 else "<=10000"
    return ("lbfgs %s: dim=%d cond%s %s m=%d order=%s atolKind=%d maxIter=%d fscale=%d x0Ex=%d"
            % (clause, start["dim"], band, start["family"], start["m"], start["order"], start["atolKind"],
               start["maxIter"], start["fscale"], start["x0Ex"]))


def lg_key(e, clause):
    """Input class of a logistic fit: number of classes, size of the penalty, largest feature magnitude
    (and, without penalty, the class layout, which decides whether the likelihood has a finite optimum)."""
    kb = "k=2" if e["k"] == 2 else "k>=3"
    a = e["alphaNum"]
    ab = "alpha=0" if a == 0 else "alpha<=1/16" if a <= 4 else "alpha<=1" if a <= 64 else "alpha>1"
    xmax = max(abs(v) for r in e["X"] for v in r) / float(1 << e["xS"])
    xb = "xmax>=128" if xmax >= 128 else "xmax<128"
    key = "logit %s: %s %s %s" % (clause, kb, ab, xb)
    if a == 0:      # the label family (adjacent / rescaled floats) is not part of the class
        key += " layout=%s" % e["layout"].split("+")[0]
    return key


def negative_model(ctx, cfg, invariant, spec_rel="linear/LBFGSModel.tla"):
    """A configuration of the design model that MUST fail: shows the invariant is not vacuous."""
    spec = os.path.join(vlib.SPEC, spec_rel)
    rc, text, dt = ctx._tlc(spec, os.path.join(vlib.SPEC, "linear", cfg), 4, 300, tag="neg-" + cfg.replace(".cfg", ""),
                            coverage=False)
    if ("Invariant %s is violated" % invariant) not in text:
        vlib.log(vlib.tail_errors(text))
        raise vlib.ToolError("negative test %s: TLC did not find the expected violation of %s" % (cfg, invariant))
    vlib.log("[tlc-mc] negative test %s: %s violated as expected (%.1fs)" % (cfg, invariant, dt))
    ctx.extra.setdefault("negative_model_tests", []).append({"cfg": cfg, "violated": invariant, "wall_s": round(dt, 1)})


def selftest_binding(ctx, lb_events, lg_events, bad_runs, bad_fits):
    """Corrupt recorded events (of runs that passed) and insist that the trace specs reject them."""
    runs = {}
    for e in lb_events:
        runs.setdefault(e["run"], []).append(e)
    pick = None
    for r, es in runs.items():
        its = [x for x in es if x["ev"] == "Iter"]
        if r not in bad_runs and es[0]["maxIter"] >= 1000 and 3 <= len(its) <= 40 and es[-1]["status"] == "ok" \
                and es[0]["fRk"] > its[0]["fRk"] > its[1]["fRk"] > its[2]["fRk"] and es[0]["gEx"] > es[0]["atolEx"] + 12:
            pick = es
            break
    if not pick:
        raise vlib.ToolError("binding self-test: no suitable recorded L-BFGS run")
    if pick:
        a = copy.deepcopy(pick)                      # an increase of the objective
        a[1]["fRk"], a[2]["fRk"] = a[2]["fRk"], a[1]["fRk"]
        b = copy.deepcopy(pick)                      # gradient not reduced at the returned point
        b[-1]["retGEx"] = b[0]["gEx"] - 3
        b[0]["atolEx"] = -2000
        c = copy.deepcopy(pick)                      # the optimiser panicked
        c[-1]["status"] = "panic"
        evs = a + b + c
        f = ctx.path("c09-selftest-lbfgs.ndjson")
        vlib.write_ndjson(f, evs)
        v, bads = ctx.tlc_trace(LB_TRACE[0], LB_TRACE[1], f, tag="selftest-lbfgs")
        got = sorted(b[3] for b in bads)
        if got != ["Monotone", "Reduced", "Terminates"]:
            raise vlib.ToolError("binding self-test: corrupted L-BFGS runs gave %s" % got)
    pick = None
    for e in lg_events:
        if e["run"] not in bad_fits and e["status"] == "ok" and e["wOk"] and e["alphaNum"] >= 16 and e["k"] >= 3 \
                and min(e["wS"]) >= 12 and e["layout"] in ("apart", "overlap"):
            pick = e
            break
    if not pick:
        raise vlib.ToolError("binding self-test: no suitable recorded logistic fit")
    if pick:
        a = copy.deepcopy(pick)                      # the all-zero start returned as the fit
        a["coef"] = [[0] * a["p"] for _ in a["coef"]]
        a["icept"] = [0] * len(a["icept"])
        a["pred2"] = [a["labels2"][0]] * len(a["pred2"])
        b = copy.deepcopy(pick)                      # class rows rotated
        b["coef"] = b["coef"][1:] + b["coef"][:1]
        b["icept"] = b["icept"][1:] + b["icept"][:1]
        c = copy.deepcopy(pick)                      # a label that never occurred
        c["pred2"][0] = 77777
        f = ctx.path("c09-selftest-logit.ndjson")
        vlib.write_ndjson(f, [a, b, c])
        v, bads = ctx.tlc_trace(LG_TRACE[0], LG_TRACE[1], f, tag="selftest-logit")
        got = set((b[0], b[3]) for b in bads)
        need = {(1, "Stationary"), (2, "Argmax"), (3, "Labels")}
        if not need <= got:
            raise vlib.ToolError("binding self-test: corrupted logistic fits gave %s" % sorted(got))
    # the self-test runs are not evidence about the code
    ctx.trace_runs = [t for t in ctx.trace_runs if not t["trace"].startswith("c09-selftest")]
    ctx.extra["binding_selftest"] = "corrupted events rejected: Monotone, Reduced, Terminates; Stationary, Argmax, Labels"


def gradient_descent_extra(ctx):
    """GradientDescent::optimize is used by no estimator and by no listed property; its specification is part of the
    coverage of the optimisation package.  Design model -> TLC; recorded runs -> TLC.  A mismatch is information
    (EXTRA-SPEC), never a C09 violation, and never changes the exit code."""
    try:
        ctx.tlc_mc("linear/GradDescentModel.tla", "linear/GradDescentModel_%s.cfg" % ctx.tier,
                   must_cover=("Begin", "Step", "Finish"), tag="mc-graddescent")
        negative_model(ctx, "GradDescentModel_noarmijo.cfg", "ProtoOK", spec_rel="linear/GradDescentModel.tla")
        fgd = ctx.path("c09-gd.ndjson")
        ctx.harness("gen-gd", fgd)
        v, bads = ctx.tlc_trace("linear/GradDescentTrace.tla", "linear/GradDescentTrace.cfg", fgd, timeout=1200,
                                must_hit=("Start", "Iter"), tag="trace-graddescent")
        ctx.extra["gradient_descent_extra"] = {"events": v.get("consumed"), "mismatches": len(bads), "hits": v["hits"],
                                               "note": "supplementary specification, not part of property C09"}
        for (l, runid, ev, clause) in bads[:10]:
            vlib.log("EXTRA-SPEC (not a listed property): GradientDescent run %d, event %d (%s): clause %s of GradDescent.tla "
                     "does not hold" % (runid, l, ev, clause))
    except vlib.ToolError as err:
        vlib.log("EXTRA-SPEC stage skipped (tool error: %s)" % err)
        ctx.extra["gradient_descent_extra"] = {"skipped": str(err)}


def run(ctx):
    ctx.build()
    t = ctx.tier
    # ---- design models
    ctx.tlc_mc("linear/LBFGSModel.tla", "linear/LBFGSModel_%s.cfg" % t, must_cover=MODEL_ACTIONS)
    negative_model(ctx, "LBFGSModel_nonconvex.cfg", "ProtoOK")
    negative_model(ctx, "LBFGSModel_panic.cfg", "NeverPanics")
    negative_model(ctx, "LBFGSModel_stalescale.cfg", "NeverScalesByInitialSlot")
    for mode in ("num", "bin", "tri"):
        ctx.tlc_mc("linear/LogisticMC.tla", "linear/LogisticMC_%s_%s.cfg" % (mode, t), tag="mc-logistic-" + mode)
    # ---- impl -> spec: the optimiser
    flb = ctx.path("c09-lbfgs.ndjson")
    ctx.harness("gen-lbfgs", flb)
    lb = vlib.read_ndjson(flb)
    v, bads = ctx.tlc_trace(LB_TRACE[0], LB_TRACE[1], flb, timeout=2400,
                            must_hit=("Start", "Iter", "StopFull", "StopTruncated", "ReducedByBits", "ReducedByAtol"))
    if v.get("live"):
        raise vlib.ToolError("L-BFGS trace ended inside a run")
    ctx.drift += sum(v["hits"].get(h, 0) for h in ("DriftIsLast", "DriftFx", "DriftCount", "DriftEvals"))
    if ctx.drift:
        vlib.log("MODEL-DRIFT property=C09: %d recorded events differ from what LBFGSModel predicts (%s)"
                 % (ctx.drift, {h: n for h, n in v["hits"].items() if h.startswith("Drift") and n}))
    by_run = {}
    for e in lb:
        by_run.setdefault(e["run"], []).append(e)
    for (l, runid, ev, clause) in bads:
        es = by_run[runid]
        fail = lb[l - 1]
        pos = es.index(fail)
        # the start, the (at most 50) events leading to the failing one, and the stop event; dropping
        # earlier iterates of a long run leaves every guard of the remaining events unchanged
        sel = [es[0]] + es[max(1, pos - 50):pos + 1] + ([es[-1]] if pos < len(es) - 1 else [])
        ctx.report(lb_key(es[0], clause), "%s fails at event %d (%s) of an L-BFGS run on a strictly convex quadratic"
                   % (clause, l, ev), sel)
    # ---- impl -> spec: logistic regression
    flg = ctx.path("c09-logit.ndjson")
    ctx.harness("gen-logit", flg)
    lg = vlib.read_ndjson(flg)
    v2, bads2 = ctx.tlc_trace(LG_TRACE[0], LG_TRACE[1], flg, timeout=2400,
                              must_hit=("Fit", "Labels", "Argmax", "ArgmaxDecidedRows", "Stationary", "StationarySharp",
                                        "Objective", "ObjectiveSharp", "Alpha0", "LongBatch", "LongTraining"))
    fam = {}
    for e in lg:
        for tag in (e.get("backend", "dense"), e.get("entry", "inherent"), e.get("build", "alpha"),
                    "labels-" + (e["layout"].split("+labels-")[1] if "+labels-" in e["layout"] else "plain")):
            fam[tag] = fam.get(tag, 0) + 1
    for tag in ("dense", "ndarray", "nalgebra", "inherent", "trait", "labels-adjacent", "labels-rescaled"):
        if not fam.get(tag):
            raise vlib.ToolError("vacuous run: no logistic fit of family %s" % tag)
    ctx.extra["logistic_families"] = fam
    for (l, runid, ev, clause) in bads2:
        e = lg[l - 1]
        if clause == "HarnessInput":
            raise vlib.ToolError("the generator emitted an event outside its own input contract (line %d)" % l)
        ctx.report(lg_key(e, clause), "%s fails on a logistic fit (run %d: n=%d p=%d k=%d alpha=%d/64 layout=%s, %d query rows, "
                   "%s back end, %s methods, labels %s)"
                   % (clause, runid, e["n"], e["p"], e["k"], e["alphaNum"], e["layout"], len(e["Q"]),
                      e.get("backend"), e.get("entry"), e.get("labelStr")), [e])
    # ---- supplementary (no listed property): plain gradient descent, spec/linear/GradDescent*.tla
    gradient_descent_extra(ctx)
    # ---- the binding is real
    try:
        selftest_binding(ctx, lb, lg, set(b[1] for b in bads), set(b[1] for b in bads2))
    except vlib.ToolError as err:
        if not ctx.violations:
            raise
        vlib.log("[selftest] skipped on a violating tree: %s" % err)
    # ---- evidence
    ctx.evaluations = len(lb) + len(lg)
    ctx.traces = len(by_run) + len(lg)
    nt = set()
    for r, es in by_run.items():
        s = es[0]
        if s["maxIter"] >= 1000 and s["cond"] > 1 and sum(1 for x in es if x["ev"] == "Iter") >= 3:
            nt.add(vlib.digest([{k: x[k] for k in x if k != "run"} for x in es]))
    for e in lg:
        if e["status"] == "ok" and e["wOk"] and e["alphaNum"] > 0 and e["n"] >= 2 * (e["p"] + 1) \
                and all(w + e["xS"] >= 12 for w in e["wS"]):
            nt.add(vlib.digest([e["X"], e["yc"], e["labels2"], e["alphaNum"]]))
    small = [es for es in by_run.values() if 4 <= len(es) <= 9 and es[0]["maxIter"] >= 1000]
    ctx.samples = (small[:1] or [list(by_run.values())[0][:8]]) + \
        [e for e in lg if e["n"] <= 12 and e["k"] >= 3][:1] + [e for e in lg if e["n"] <= 10 and e["k"] == 2][:1]
    ctx.extra["lbfgs_hits"] = v["hits"]
    ctx.extra["logistic_hits"] = v2["hits"]
    ctx.extra["not_covered"] = [
        "stationarity and objective decrease of the logistic fit are decided only to the width of the integer enclosure "
        "(about 1e-2 of the gradient / 2e-3 of the objective at the all-zero start), not to 'negligible' in floating point",
        "fits whose coefficients do not fit the 32-bit fixed-point budget are counted (Unscorable/GradUnscorable/ObjUnscorable), not judged",
        "Reduced demands 10 binary orders of magnitude (or the caller's g_atol); f32 is not exercised",
    ]
    ctx.assumptions = [
        "coefficient row c of a multi-class model belongs to the c-th smallest label; the single row of a two-class model scores the larger label",
        "ExpTab (177 integers) is trusted only after TLC has verified its functional equations (ASSUMEs of LogisticNum, LogisticMC mode num)",
        "the quadratic objective and its gradient are evaluated by the harness in double precision; monotonicity is judged on those computed values (the values the optimiser itself sees)",
        "the harness rounds coefficients to 15 significant bits per feature column; the spec propagates the rounding error",
    ]
    return ctx.finish(RULE, len(nt), exhaustive=False,
                      explanation="design models LBFGSModel (control structure of optimize/update_state/assess_convergence/"
                                  "update_hessian/Backtracking::search, with three negative configurations that must fail, one of which is the path behind the NaN finding) and "
                                  "LogisticMC (the contracts on two fixed training sets over grids of candidate models, and the "
                                  "functional equations of the exp/ln enclosures) are model-checked; recorded runs of the real "
                                  "optimiser and of LogisticRegression are validated by LBFGSTrace / LogisticTrace")


def replay(ctx, path):
    d = json.load(open(path))
    evs = d["events"]
    ctx.seed = d.get("seed", ctx.seed)
    ctx.tier = d.get("tier", ctx.tier)
    is_lb = evs[0]["ev"] in ("Start", "Iter", "Stop")
    spec = LB_TRACE if is_lb else LG_TRACE
    rc = 0
    # (1) the recorded events against the specification
    f = ctx.path("replay.ndjson")
    vlib.write_ndjson(f, evs)
    v, bads = ctx.tlc_trace(spec[0], spec[1], f, tag="replay-recorded")
    for b in bads:
        print("REPLAY-BAD recorded", b)
    rc = 1 if bads else rc
    # (2) execute the same case again on the current tree and validate what it does now
    try:
        ctx.build()
        f2 = ctx.path("replay-rerun.ndjson")
        if is_lb:       # the quadratic is not part of the events: regenerate it from (seed, tier, run)
            ctx.harness("rerun-lbfgs", f2, evs[0]["run"])
        else:           # the training set is: fit it again
            ctx.harness("refit-file", f2, f)
        v, bads = ctx.tlc_trace(spec[0], spec[1], f2, tag="replay-rerun")
        for b in bads:
            print("REPLAY-BAD rerun", b)
        rc = 1 if bads else rc
    except vlib.ToolError as e:
        print("REPLAY-NOTE re-execution not possible: %s" % e)
    return rc
