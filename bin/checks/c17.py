"""C17 — distance functions are metrics and equal their closed forms.  DESIGN.md §3 C17.

Deciding method: TLA+ predicates of spec/metrics/Distances.tla evaluated by TLC
 (a) as invariants of the design models DistancesMC (coordinate loop of Manhattan / Euclidean /
     Minkowski / Hamming) and DistancesMahaMC (Mahalanobis quadratic form), explored exhaustively
     over small integer vectors, and
 (b) on every event recorded from the real code by harness/c17 (DistancesTrace.tla), including
     the inputs TLC itself enumerated from the model (REPLAY lines -> `replay-spec` -> "Expect").
"""
import json

import vlib

LEVEL = "model_checking"

RULE = ("Inputs: integer vectors; exhaustive pairs (x,y) of length <= 2 (quick) / <= 3 (thorough) over {-2..2} and exhaustive "
        "triples of length 1 / <= 2, each for Manhattan, Euclidean, Minkowski p=1..8, Hamming (float and integer vectors), f64 and f32; "
        "a length ladder 63..1025 around the powers of two plus 2049/3000/4097 and a single differing coordinate at every position of "
        "65- and 129-vectors; seeded random lengths 1..30 with components up to 1000, power-of-two rescaling 2^-60..2^60, equal vectors, one differing "
        "coordinate, collinear triples, sparse vectors; Mahalanobis from every symmetric integer 2x2 matrix with entries <= 4, "
        "identity of order 1..3, B*B^T 3x3, the structured family A*D*A^T (A integer unit lower triangular, orders 3..5: exact zeros / "
        "ties / negative candidates in the elimination) as covariance and as factorial-design data, random integer data rows, a sample "
        "on the ndarray (row- and column-major) and nalgebra back ends; length mismatches for every kind; plus every input "
        "the TLC design model enumerated (REPLAY). One event = five calls d(x,y), d(y,x), d(x,x), d(y,z), d(x,z). "
        "An event is non-trivial when it is a successful Dist/Maha event with x, y, z pairwise different and length >= 2 "
        "(Maha: additionally a positive-definite non-diagonal covariance or full-rank data); distinct = distinct "
        "(ev, kind/mode, p, prec, e, matrix, x, y, z) tuples")

CHUNK = 50000

DIST_HITS = ("Dist_man", "Dist_euc", "Dist_mink", "Dist_ham", "Dist_hami", "F32", "EqualArgs", "TriangleTight", "Mink1", "Mink2")


def key_of(e, clause):
    ev = e.get("ev")
    fl = "f64" if e.get("prec", 52) >= 50 else "f32"
    if ev == "Dist":
        return "dist %s p=%d %s %s%s: %s" % (e["kind"], e["p"], fl, "rescaled" if e["e"] != 0 else "unscaled",
                                             " len>64" if len(e["x"]) > 64 else "", clause)
    if ev == "Mismatch":
        return "mismatch %s p=%d %s len %s vs %s: %s" % (e["kind"], e["p"], fl, "0" if not e["x"] else ">0",
                                                        "0" if not e["y"] else ">0", clause)
    if ev == "Maha":
        be = e.get("backend", "dense")
        return "maha %s order=%d %s%s: %s" % (e["mode"], len(e["mat"][0]), fl, "" if be == "dense" else " " + be, clause)
    if ev == "MahaMismatch":
        return "maha-mismatch order=%d %s: %s" % (len(e["mat"]), fl, clause)
    if ev == "Expect":
        return "model-interval %s p=%d %s: %s" % (e["kind"], e["p"], fl, clause)
    return "unknown event"


def what_of(e, clause):
    ev = e.get("ev")
    if ev in ("Dist", "Maha"):
        extra = ("mat=%s " % json.dumps(e["mat"])) if ev == "Maha" else ("kind=%s p=%d " % (e["kind"], e["p"]))
        vec = lambda v: v if len(v) <= 40 else "(len %d, see replay file)" % len(v)  # noqa
        return "%s fails: %sx=%s y=%s z=%s e=%d -> status=%s xy=%s" % (
            clause, extra, vec(e["x"]), vec(e["y"]), vec(e["z"]), e["e"], e["status"], json.dumps(e["xy"]))
    return "%s fails: %s" % (clause, json.dumps(e)[:400])


def nontrivial(e):
    if e.get("status") != "ok" or e["ev"] not in ("Dist", "Maha"):
        return False
    x, y, z = e["x"], e["y"], e["z"]
    if len(x) < 2 or x == y or y == z or x == z:
        return False
    if e["ev"] == "Maha":
        m = e["mat"]
        if e["mode"] == "cov":
            return any(m[i][j] != 0 for i in range(len(m)) for j in range(len(m)) if i != j)
        return True
    return True


def tup(e):
    return (e["ev"], e.get("kind", e.get("mode")), e.get("p"), e.get("prec"), e.get("e"),
            json.dumps(e.get("mat")), tuple(e["x"]), tuple(e["y"]), tuple(e.get("z", ())))


def validate(ctx, name, events, must_hit=()):
    """run the trace spec over `events` in chunks; returns merged hits; reports bad events"""
    hits = {}
    for c in range(0, max(len(events), 1), CHUNK):
        part = events[c:c + CHUNK]
        if not part:
            break
        f = ctx.path("c17-%s-%d.ndjson" % (name, c // CHUNK))
        vlib.write_ndjson(f, part)
        v, bads = ctx.tlc_trace("metrics/DistancesTrace.tla", "metrics/DistancesTrace.cfg", f, timeout=1500)
        for k, n in v.get("hits", {}).items():
            hits[k] = hits.get(k, 0) + n
        for (l, _run, _ev, clause) in bads:
            e = part[l - 1]
            ctx.report(key_of(e, clause), what_of(e, clause), [e])
    for h in must_hit:
        # vacuity is an error of a *passing* run; a run that already found violations reports those
        if hits.get(h, 0) == 0 and not ctx.violations and not ctx.known_hits:
            raise vlib.ToolError("vacuous trace run: clause %s never exercised in %s" % (h, name))
    return hits


def run(ctx):
    ctx.build()
    t = ctx.tier
    # ---- design models (a failure here is an error of the model / predicate: exit 2)
    _, prints = ctx.tlc_mc("metrics/DistancesMC.tla", "metrics/DistancesMC_pairs_%s.cfg" % t,
                           must_cover=("Check", "Accum", "Finish"), timeout=1500, keep_prints=True)
    ctx.tlc_mc("metrics/DistancesMC.tla", "metrics/DistancesMC_triples_%s.cfg" % t,
               must_cover=("Check", "Accum", "Finish"), timeout=1500)
    ctx.tlc_mc("metrics/DistancesMahaMC.tla", "metrics/DistancesMahaMC_%s.cfg" % t,
               must_cover=("Check", "Diff", "QuadStep", "Root"), timeout=1500)
    # ---- spec -> impl: the inputs TLC enumerated, replayed through the real code
    rep = [json.loads(s) for (tag, s) in prints if tag == "REPLAY"]
    if not rep:
        raise vlib.ToolError("design model printed no REPLAY lines")
    if ctx.thorough:   # all equal-length inputs, every 10th of the (many) length mismatches
        rep = [r for i, r in enumerate(rep) if not r["panic"] or i % 10 == 0]
    repf = ctx.path("c17-replay-in.ndjson")
    vlib.write_ndjson(repf, rep)
    expf = ctx.path("c17-expect.ndjson")
    ctx.harness("replay-spec", expf, repf)
    all_events = []
    ev = vlib.read_ndjson(expf)
    if len(ev) != 2 * len(rep):
        raise vlib.ToolError("replay-spec returned %d events for %d inputs" % (len(ev), len(rep)))
    hits = validate(ctx, "expect", ev, must_hit=("Expect", "ExpectPanic"))
    all_hits = dict(hits)
    all_events += ev
    # ---- impl -> spec
    skipped = 0
    for mode, must in (("small", DIST_HITS), ("random", DIST_HITS + ("Scaled",)),
                       ("ladder", ("LongVector", "Dist_euc", "Dist_man", "Dist_mink", "Dist_ham", "F32", "Scaled")),
                       ("mismatch", ("Mismatch", "MahaMismatch")),
                       ("maha", ("Maha_cov", "Maha_data", "Maha_identity", "Maha_unconstrained", "Maha_f32")),
                       ("maha-structured", ("Maha_cov", "Maha_data", "Maha_order45", "Maha_f32")),
                       ("maha-backends", ("Maha_cov", "Maha_data", "Maha_f32"))):
        f = ctx.path("c17-%s.ndjson" % mode)
        p = ctx.harness("gen-" + mode, f)
        try:
            skipped += int(p.stdout.strip().split("skipped=")[1])
        except Exception:  # noqa
            pass
        ev = vlib.read_ndjson(f)
        hits = validate(ctx, mode, ev, must_hit=must)
        for k, n in hits.items():
            all_hits[k] = all_hits.get(k, 0) + n
        all_events += ev
    if all_hits.get("ModelMismatch", 0):
        raise vlib.ToolError("design model interval differs from the closed form on %d replayed inputs: the model is wrong" % all_hits["ModelMismatch"])
    if all_hits.get("Unfit", 0):
        raise vlib.ToolError("%d events whose integers do not fit the specification's range" % all_hits["Unfit"])
    ctx.evaluations = len(all_events)
    ctx.traces = sum(5 if e["ev"] in ("Dist", "Maha") else 1 for e in all_events)   # real calls validated
    nt = set(tup(e) for e in all_events if nontrivial(e))
    pick = lambda pred: next((e for e in all_events if pred(e)), None)  # noqa
    ctx.samples = [s for s in (
        pick(lambda e: e["ev"] == "Dist" and e["kind"] == "mink" and e["p"] == 3 and len(e["x"]) == 2 and nontrivial(e)),
        pick(lambda e: e["ev"] == "Dist" and e["kind"] == "euc" and e["e"] != 0 and e["prec"] == 23 and 3 <= len(e["x"]) <= 6 and nontrivial(e)),
        pick(lambda e: e["ev"] == "Maha" and e["mode"] == "data" and nontrivial(e)),
        pick(lambda e: e["ev"] == "Maha" and e["mode"] == "cov" and nontrivial(e)),
        pick(lambda e: e["ev"] == "Mismatch" and len(e["x"]) > 0 and len(e["y"]) > 0),
        pick(lambda e: e["ev"] == "Expect" and not e["expectPanic"] and e["lo"] > 0)) if s is not None]
    ctx.extra["clause_hits"] = all_hits
    ctx.extra["skipped_out_of_range_inputs"] = skipped
    ctx.extra["not_covered"] = [
        "accuracy finer than the recorded projections (about 2^-10 .. 2^-20 relative; exact integers for f64 power sums)",
        "overflow / underflow of intermediate powers at extreme magnitudes (rescaling is limited to 2^-60..2^60 for f64, 2^-8..2^8 for f32)",
        "Mahalanobis of order > 5 and covariance matrices with non-integer entries; ill-conditioned covariances in f32 "
        "where the derived rounding allowance exceeds the integer range are counted as skipped",
        "Minkowski order p > 8; the design model covers p <= 4"]
    ctx.assumptions = [
        "inputs are integer-valued vectors, optionally multiplied by an exact power of two; the harness divides results by the same power",
        "projection of a float v: sign, round(v*2^S), round(v^P*M*2^T), bit pattern (harness/c17 proj)",
        "symmetry is required bit for bit (IEEE subtraction is exactly antisymmetric); triangle inequality on fixed point with 2 units of slack (+ derived f32 allowance)",
        "rounding allowances for f32 and for the LU inverse of Mahalanobis are derived in Distances.tla (PwTol, FxSlack, RelSlack)"]
    return ctx.finish(RULE, len(nt), exhaustive=False,
                      explanation="design models exhaustive for their configured scopes; trace validation exhaustive over the small "
                                  "domain listed in the rule and sampled (seeded) beyond it")


def replay(ctx, path):
    """re-validate the recorded events of a replay artefact, then re-execute the same calls
    against the current tree and validate what they return now"""
    d = json.load(open(path))
    f = ctx.path("replay-recorded.ndjson")
    vlib.write_ndjson(f, d["events"])
    v, bads = ctx.tlc_trace("metrics/DistancesTrace.tla", "metrics/DistancesTrace.cfg", f, tag="trace-replay-recorded")
    for b in bads:
        print("REPLAY-BAD recorded", b)
    ctx.build()
    g = ctx.path("replay-rerun.ndjson")
    ctx.harness("rerun", g, f)
    v2, bads2 = ctx.tlc_trace("metrics/DistancesTrace.tla", "metrics/DistancesTrace.cfg", g, tag="trace-replay-rerun")
    for b in bads2:
        print("REPLAY-BAD re-executed", b)
    if bads2:
        print("VIOLATION property=C17 replay=%s" % path)
    return 1 if bads2 else 0
