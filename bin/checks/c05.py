"""C05 — a fitted decision tree is a consistent, greedy-optimal partition within limits.
DESIGN.md §3 C05.

1. TLC model-checks TreeGrow.tla (the breadth-first growth loop, the split search with its
   skips / guards / tie-break, the re-validation) against the predicates of TreeSpec.tla for
   every small training set and parameter combination of the tier's scope.
2. spec -> impl: the terminal states TLC prints are replayed through the real
   DecisionTreeClassifier / DecisionTreeRegressor (`c05 replay-spec`).
3. impl -> spec: seeded random and hand-built training sets (`c05 gen-random`), every fit
   repeated (determinism) and repeated on features * 2^j; plus quick_argsort_mut events.
4. TreeTrace.tla evaluates the same TreeSpec predicates on every recorded event under TLC.
"""
import json

import vlib

LEVEL = "model_checking"

RULE = ("TLC enumerates every canonical training multiset of the TreeGrow scope x criteria x max_depth x "
        "min_samples_leaf x min_samples_split (exhaustive for that scope) and a hash-sampled subset of the "
        "terminal trees is replayed through the real code; seeded random fits: 2..150 rows, 1..6 features "
        "(small-integer, pairwise-distinct, continuous, dyadic, constant/binary mixtures), 2..5 classes (one case with 300) with "
        "arbitrary float labels (integers, fractional between 0 and k-1, colliding under truncation, closer than epsilon, huge, "
        "signed zero; carried as order-preserving codes) / dyadic targets, 3 criteria, max_depth None|1..8, min_samples_leaf 1..5, "
        "min_samples_split 0..8, through DenseMatrix<f64> (65%), DenseMatrix<f32>, ndarray (column- and row-major) and nalgebra, "
        "inherent and api-trait entry points, structured row orders, sizes around powers of two up to 1025 (2049 thorough), "
        "each fitted twice and (half of them) on features*2^j, j in -200..200 and 1023 / 127 (near overflow). A fit is non-trivial "
        "when the tree has >= 3 internal nodes, or two rows share a feature value but not the label/target, "
        "or a leaf that could still be split by some threshold was kept by a depth / leaf-size / split-size "
        "limit; distinct = distinct (parameters, X, y)")

MUST_HIT = ("TreeFit", "Cls", "Reg", "DepthLimited", "LeafLimit", "OptReg", "CompleteReg", "SideCond", "OptGini",
            "OptEntropy", "OptError", "CompleteCls", "Reproduce", "Refit", "Scaled", "ScaledFar", "ArgSort", "Replayed",
            "Adjacent", "F32", "NdarrayF", "NdarrayC", "Nalgebra", "NearMax", "Ordered", "Ladder", "TraitEntry",
            "SortPattern", "SortLadder", "LabelFractional", "LabelColliding", "LabelTiny", "LabelHuge",
            "LabelSignedZero", "ManyClasses")


def leaf_rows(e):
    """measurement only (non-triviality): route the training rows with the recorded thresholds"""
    nodes = e["nodes"]
    out = {}
    for r, row in enumerate(e["X"]):
        k = 0
        for _ in range(len(nodes) + 1):
            nd = nodes[k]
            if nd["t"] < 0 or nd["fc"] < 0:
                break
            k = nd["t"] if row[nd["f"]] <= nd["thr"] else nd["fc"]
        out.setdefault(k, []).append(r)
    return out


def nontrivial(e):
    if e.get("ev") != "TreeFit" or e.get("status") != "ok":
        return False
    nodes = e["nodes"]
    if sum(1 for n in nodes if n["t"] >= 0) >= 3:
        return True
    X, y = e["X"], e["y"]
    for j in range(e["p"]):
        seen = {}
        for r in range(e["n"]):
            v = X[r][j]
            if v in seen and seen[v] != y[r]:
                return True
            seen.setdefault(v, y[r])
    try:
        for k, rows in leaf_rows(e).items():
            if len(rows) <= max(e["mss"], 1):
                continue
            if e["kind"] == "cls" and len(set(y[r] for r in rows)) < 2:
                continue
            if any(len(set(X[r][j] for r in rows)) > 1 for j in range(e["p"])):
                return True
    except Exception:  # malformed tree: the spec reports it; not counted here
        return False
    return False


def threshold_on_data_value(e):
    """input-class signature of the known rounding defect: an internal node whose threshold
    coincides with a training value of its feature (the midpoint of two neighbouring doubles is
    one of them).  Correct midpoints of exactly projected data are never data values."""
    try:
        return any(n["t"] >= 0 and n["thrOk"] and any(row[n["f"]] == n["thr"] for row in e["X"])
                   for n in e["nodes"])
    except Exception:
        return False


def key_of(e, clause):
    if e["ev"] == "TreeFit" and e.get("status") == "ok" and e.get("xkind") == "rank" and threshold_on_data_value(e):
        return "%s tree: split threshold equals the upper of two neighbouring doubles" % e["kind"]
    if e["ev"] == "ArgSort":
        return "argsort %s n=%d: %s" % (e.get("family", ""), len(e["v"]), clause)
    if e["ev"] == "Refit" or (e["ev"] == "Scaled" and clause == "ScaleInvariant"):
        far = abs(e.get("shift") or 0) >= 50
        return "%s %s(%s, %s): %s" % (e["ev"], "by 2^+-50 or more " if far else "", e.get("backend"), e.get("family"), clause)
    return "%s/%s %s (%s features%s%s%s, max_depth %s, min_samples_leaf %s, min_samples_split %s)" % (
        e["kind"], e["crit"], clause, e.get("family"),
        "" if e.get("backend", "dense") == "dense" else " via " + e["backend"],
        " scaled by 2^%d" % e["shift"] if e.get("shift") else "",
        ", %s labels" % e["labelFamily"] if e.get("kind") == "cls" and e.get("labelFamily") not in (None, "none", "fixed", "model", "ladder", "integers") else "", "none" if e["maxDepth"] == 0 else "set",
        "1" if e["msl"] == 1 else ">1", "<=1" if e["mss"] <= 1 else ">1")


def group_replays(prints):
    """TLC prints one REPLAY line per (sampled) terminal state; the same input may end in several
    trees (tie orders of the pre-sort): group them into one replay case with alternatives."""
    cases = {}
    for tag, s in prints:
        if tag != "REPLAY":
            continue
        d = json.loads(s)
        nodes = d.pop("nodes")
        k = json.dumps(d, sort_keys=True)
        c = cases.setdefault(k, dict(d, expect=[]))
        if nodes not in c["expect"]:
            c["expect"].append(nodes)
    return list(cases.values())


def validate(ctx, path, events, must_hit):
    v, bads = ctx.tlc_trace("tree/TreeTrace.tla", "tree/TreeTrace.cfg", path, must_hit=must_hit, timeout=2400)
    by_run = {}
    for e in events:
        if e["ev"] == "TreeFit":
            by_run[e["run"]] = e
    for (l, run, ev, clause) in bads:
        e = events[l - 1]
        if ev == "Refit" or (ev == "Scaled" and clause in ("ScaleInvariant",)):
            f = by_run.get(run)
            ctx.report(key_of(e, clause), "%s fails: refit of run %s differs (kind=%s)" % (clause, run, f and f["kind"]),
                       [x for x in (f, e) if x])
        elif ev == "ArgSort":
            ctx.report(key_of(e, clause), "quick_argsort_mut does not sort %s" % (e["v"][:20],), [e])
        else:
            what = "%s fails on a %s/%s tree fitted on %d rows x %d features (max_depth=%s msl=%d mss=%d, %d nodes)" % (
                clause, e["kind"], e["crit"], e["n"], e["p"], e["maxDepth"] or None, e["msl"], e["mss"],
                len(e.get("nodes", [])))
            if clause == "NoResult":
                what = "fit/predict returned %s on a valid training set (%s/%s, %d rows)" % (e["status"], e["kind"], e["crit"], e["n"])
            ctx.report(key_of(e, clause), what, [e])
    return v


def run(ctx):
    ctx.build()
    # ---- design model
    mc_cfgs = ["tree/TreeGrowMC_%s.cfg" % ctx.tier]
    if ctx.thorough:
        # two features (all tie orders); the quick scope with three targets at every size
        mc_cfgs += ["tree/TreeGrowMC2_thorough.cfg", "tree/TreeGrowMC3_thorough.cfg"]
    prints = []
    for cfg in mc_cfgs:
        _, pr = ctx.tlc_mc("tree/TreeGrow.tla", cfg, must_cover=("Start", "SplitNode", "Finish"), timeout=3000,
                           keep_prints=True, heap="6g")
        prints += pr
    # the pre-sort the growth relies on
    sort_cfgs = ["tree/TreeArgSortMC_%s.cfg" % ctx.tier] + (["tree/TreeArgSortMC2_thorough.cfg"] if ctx.thorough else [])
    for cfg in sort_cfgs:
        ctx.tlc_mc("tree/TreeArgSort.tla", cfg, must_cover=("Insertion", "Partition"), timeout=3000)
    cases = group_replays(prints)
    if not cases:
        raise vlib.ToolError("TreeGrow printed no REPLAY line")
    rin = ctx.path("c05-replay-in.ndjson")
    vlib.write_ndjson(rin, cases)
    # ---- the real code
    files = []
    f = ctx.path("c05-replay.ndjson")
    ctx.harness("replay-spec", rin, f)
    files.append(f)
    f = ctx.path("c05-random.ndjson")
    ctx.harness("gen-random", f)
    files.append(f)
    f = ctx.path("c05-argsort.ndjson")
    ctx.harness("gen-argsort", f)
    files.append(f)
    events = []
    off = 0
    for f in files:
        evs = vlib.read_ndjson(f)
        for e in evs:
            e["run"] += off
        off = max([off] + [e["run"] for e in evs])
        events += evs
    allf = ctx.path("c05-all.ndjson")
    vlib.write_ndjson(allf, events)
    v = validate(ctx, allf, events, MUST_HIT)
    hits = v.get("hits", {})
    ctx.drift = hits.get("Drift", 0)
    if ctx.drift:
        vlib.log("MODEL-DRIFT: %d replayed fits satisfy the property but differ from every tree of the design model" % ctx.drift)
    fits = [e for e in events if e["ev"] == "TreeFit"]
    ctx.evaluations = len(events)
    ctx.traces = len(fits) + sum(1 for e in events if e["ev"] in ("Refit", "Scaled", "ArgSort"))
    nt = set()
    for e in fits:
        if nontrivial(e):
            nt.add(vlib.digest([e["kind"], e["crit"], e["maxDepth"], e["msl"], e["mss"], e["X"], e["y"]]))
    if len(nt) < 50:
        raise vlib.ToolError("vacuous run: only %d non-trivial fits" % len(nt))

    def small(e):
        e = dict(e)
        e.pop("sig", None)
        return e
    mid = [e for e in fits if e.get("family") != "model" and 8 <= e["n"] <= 14 and len(e.get("nodes", [])) >= 5]
    ctx.samples = [small(x) for x in (fits[:1] + mid[:2])] + [e for e in events if e["ev"] == "Scaled"][:1]
    ctx.extra = {
        "clause_hits": hits,
        "replayed_model_inputs": len(cases),
        "optimality_nodes_checked": hits.get("OptNodesChecked", 0),
        "optimality_nodes_not_checked": hits.get("OptNodesSkipped", 0),
        "not_covered": [
            "entropy optimality at nodes of more than 10 rows (no logarithm in TLA+; the integer identity overflows)",
            "regression optimality at nodes of more than 64 rows or with a target spread too large for 32-bit D^2 "
            "(distinct gains there may differ by less than double rounding error)",
            "f32 trees: regression optimality not decided, gini optimality only at nodes of <= 12 rows; "
            "thresholds are only required to induce an optimal partition, not to be midpoints",
            "near underflow (subnormal features); near overflow (2^1023 / 2^127) only the partition, not the exact "
            "threshold, is required to be scale invariant",
        ],
    }
    ctx.assumptions = [
        "the node array is read from the serde dump of the fitted model; a node without children is a leaf",
        "features / thresholds are compared on an exact integer scale or by joint dense ranks (order-preserving)",
        "regression targets are dyadic rationals with |numerator| <= 20; outputs are compared at 2^-16",
        "ties between equal-gain thresholds admit any maximiser; max_depth is an upper bound only",
    ]
    return ctx.finish(RULE, len(nt), exhaustive=False,
                      explanation="TreeGrow model checking is exhaustive for its configured scope (see "
                                  "model_checking_runs); the random binding is sampled.")


def replay(ctx, path):
    d = json.load(open(path))
    f = ctx.path("replay.ndjson")
    vlib.write_ndjson(f, d["events"])
    v, bads = ctx.tlc_trace("tree/TreeTrace.tla", "tree/TreeTrace.cfg", f)
    for b in bads:
        print("REPLAY-BAD", b)
    print("replayed %d event(s) of %s: %d rejected by TreeTrace" % (len(d["events"]), path, len(bads)))
    return 1 if bads else 0
