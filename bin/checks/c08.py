"""C08 — Lasso and elastic net terminate near the optimum of their stated objective; validation errors.
DESIGN.md §3 (numerical kernels).

Contract specification spec/linear/Lasso.tla (validation decision table; intercept / predict identities;
near-optimality as coordinate probes that are linear in the fixed-point residual; "two near-minimisers of the
same objective are close" for the target-shift and l1_ratio = 1 relations), design model LassoMC.tla (closed-form
one-regressor soft-threshold solver confronted with the contract), trace validation LassoTrace.tla of events
recorded from the real Lasso / ElasticNet run under a watchdog."""
import json
import vlib

LEVEL = "exploration"

RULE = ("seeded random integer regression problems (families dense / large column means / near-collinear / +-1 / sparse; "
        "n<=10 (thorough <=20), p<=4 (thorough <=6); targets with mean exactly 0, moderate mean, |mean| >> spread), "
        "alpha in 2^-10..1000 (sparse regime included), l1_ratio in {1/4,1/2,3/4,1}, tol in {2^-10,2^-14,2^-20}, both "
        "normalisation settings, Lasso and ElasticNet; exact power-of-two scale family (y, or X and y, times 2^-20, 2^-10, 2^10 "
        "with alpha scaled so that the objective is homogeneous; outputs descaled exactly); target-offset family (y + 2^30..2^36 or 1e9 fed to the library, offset removed from the "
        "intercept again); both entry points (inherent fit/predict and api::SupervisedEstimator/Predictor; every invalid setting "
        "through both); size ladder n in {63,64,65,255,256,257} (thorough: up to 513); pairs (y, y+c) and (elastic net l1_ratio=1, Lasso); every row "
        "of the Lasso validation table incl. combinations; probes of alpha=0, constant targets and non-dyadic constant "
        "columns. Non-trivial = a valid fit in which the penalty is active but not total (some but not all |w_j| < 2^-6, "
        "or p = 1 and 0 < |w| visibly shrunk is not observable -> counted when alpha >= 1/8), a Pair event, or an "
        "invalid setting; distinct = distinct (X, y, parameters)")


def mean_zero(e):
    return sum(e["y"]) == 0


def l1_is_one(e):
    return e["l1N"] == 1 and e["l1E"] == 0


def key_of(e, clause):
    """identifies the failing input class"""
    k = key_of_unscaled(e, clause)
    if e.get("yexp", 0) or e.get("xexp", 0):
        k += " [data scaled by 2^%d (X) / 2^%d (y), alpha by 2^%d]" % (e.get("xexp", 0), e["yexp"], e.get("aexp", 0))
    if e.get("yoff", 0) or (e["ev"] == "Pair" and abs(e.get("shift", 0)) >= 1 << 20):
        k += " [target offset >= 2^30]"
    if e.get("maxIterClass") in ("tiny", "huge"):
        k += " [max_iter %s]" % e["maxIterClass"]
    if e.get("entry") == "api":
        k += " [via api::SupervisedEstimator / Predictor]"
    return k


def key_of_unscaled(e, clause):
    fam = e.get("fam", "")
    if e["ev"] == "Fit":
        if fam.startswith("probe-constcol") or (fam.startswith("invalid6") and e.get("xden", 1) != 1):
            return "lasso: constant non-dyadic column under normalisation -> %s (Err expected)" % e["status"]
        if e["status"] != "ok" and e["aN"] == 0 and clause.startswith("Status_"):
            return "alpha=0: fit does not return coefficients (%s)" % e["status"]
        if e["status"] != "ok" and len(set(e["y"])) == 1 and clause.startswith("Status_"):
            return "constant target: fit does not return coefficients (%s)" % e["status"]
        if clause.startswith("Status_") and e["aN"] > 0 and len(set(e["y"])) > 1:
            return "valid setting (alpha > 0, non-constant y): fit returns %s instead of coefficients, tol=2^-%d" % (e["status"], e["tolE"])
        if clause.startswith("Validation_"):
            return "lasso validation: %s -> %s" % (fam, e["status"])
        if e["est"] == "enet" and clause == "NearOptimal" and not mean_zero(e):
            if not l1_is_one(e):
                return "enet: mean(y) != 0, l1_ratio < 1: not near the optimum of the stated objective"
            return "enet: mean(y) != 0, l1_ratio = 1, normalize=%s: not near the optimum of the stated objective" % e["normalize"]
        return "%s %s normalize=%s mean(y)%s0 alpha=%d/2^%d l1=%d/2^%d tol=2^-%d" % (
            e["est"], clause, e["normalize"], "=" if mean_zero(e) else "!=", e["aN"], e["aE"], e["l1N"], e["l1E"], e["tolE"])
    # Pair
    if e["kind"] == "shift" and e["est"] == "enet":
        if not l1_is_one(e):
            return "enet: y -> y + c changes the coefficients (l1_ratio < 1) [%s]" % clause
        return "enet: y -> y + c changes the coefficients (l1_ratio = 1, normalize=%s) [%s]" % (e["normalize"], clause)
    if e["kind"] == "l1one" and not mean_zero(e):
        return "enet with l1_ratio = 1 differs from Lasso (mean(y) != 0, normalize=%s)" % e["normalize"]
    return "pair %s %s %s normalize=%s mean(y)%s0 l1=%d/2^%d" % (e["kind"], e["est"], clause, e["normalize"],
                                                                "=" if mean_zero(e) else "!=", e["l1N"], e["l1E"])


def nontrivial(e):
    if e["ev"] == "Pair":
        return e["statusA"] == "ok" and e["statusB"] == "ok"
    if e["status"] != "ok":
        return True
    if not e["q"]:
        return False
    w = e["q"][0]["W"]
    s = e["q"][0]["S"]
    small = [abs(v) * 64 < (1 << s) for v in w]
    return (any(small) and not all(small)) or (len(w) == 1 and e["aN"] * 8 >= (1 << e["aE"]))


def run(ctx):
    ctx.build()
    ctx.tlc_mc("linear/LassoMC.tla", "linear/LassoMC_%s.cfg" % ctx.tier, must_cover=("SolveLasso", "SolveEnet"), timeout=1200)
    f = ctx.path("c08.ndjson")
    p = ctx.harness("gen", f)
    events = vlib.read_ndjson(f)
    v, bads = ctx.tlc_trace("linear/LassoTrace.tla", "linear/LassoTrace.cfg", f,
                            must_hit=("Valid_lasso_raw", "Valid_lasso_std", "Valid_enet_raw", "Valid_enet_std", "Invalid",
                                      "Pair_shift", "Pair_l1one", "ScaledDown", "ScaledUp",
                                      "TargetOffset", "Invalid_api", "Invalid_inherent", "Valid_api",
                                      "MaxIter_tiny", "MaxIter_huge"))
    hits = v.get("hits", {})
    for (l, runid, ev, clause) in bads:
        e = events[l - 1]
        evs = [e] if ev == "Fit" else [x for x in events if x["run"] == runid]
        ctx.report(key_of(e, clause), "%s fails on %s %dx%d (%s, run %s)" % (clause, e.get("est"), e["n"], e["p"], e.get("fam"), runid), evs)
    ctx.evaluations = len(events)
    ctx.traces = sum(1 for e in events if e["ev"] == "Fit")
    nt = set()
    for e in events:
        if nontrivial(e):
            nt.add(vlib.digest([e["ev"], e["X"], e["y"], e["aN"], e["aE"], e["l1N"], e["l1E"], e["normalize"], e["tolE"],
                                e.get("est"), e.get("kind"), e.get("shift"), e.get("tolSgn"), e.get("maxIter")]))
    fits = [e for e in events if e["ev"] == "Fit" and e["status"] == "ok"]
    pairs = [e for e in events if e["ev"] == "Pair"]
    inval = [e for e in events if e["ev"] == "Fit" and e["status"] == "err"]
    ctx.samples = [x for x in (fits[:1] + pairs[:1] + inval[:1] + [max(fits, key=lambda e: e["n"] * e["p"])]) if x]
    ctx.extra["harness_counts"] = p.stdout.strip()
    ctx.extra["out_of_range_events"] = hits.get("OutOfRange", 0)
    ctx.extra["pairs_skipped_because_a_fit_failed"] = hits.get("Skipped", 0)
    ctx.extra["not_covered"] = [
        "near-optimality to within tol itself: the probes are necessary conditions (a point that passes is within a modest, "
        "conditioning-dependent factor of the permitted sub-optimality); resolution 2^-S, S in {12, 9, 6} chosen in the spec",
        "n > 20, p > 6, |entries| > ~100 (32-bit TLC arithmetic); f32",
        "ElasticNet has no validation contract in the statement (only Lasso's table is checked)"]
    ctx.assumptions = ["'a small multiple of tol' is read as 8 tol; the true minimum is bounded above by min(P(0), P(w^))",
                       "max_iter = 1000 (library default) for the bulk; max_iter in {10^6, usize::MAX/2, usize::MAX} must behave like the default, "
                       "max_iter in {1, 2} only 'returns coefficients or Err'; termination = fit returns within 20 s (4 s for the probes)",
                       "sigma_j enters the standardised L1 weight linearly and is bracketed by integer square roots inside the spec"]
    return ctx.finish(RULE, len(nt), exhaustive=False)


def replay(ctx, path):
    d = json.load(open(path))
    ctx.build()
    f0 = ctx.path("replay-recorded.ndjson")
    vlib.write_ndjson(f0, d["events"])
    f1 = ctx.path("replay-rerun.ndjson")
    ctx.harness("replay-file", f0, f1)
    rc = 0
    for name, f in (("recorded", f0), ("re-executed", f1)):
        v, bads = ctx.tlc_trace("linear/LassoTrace.tla", "linear/LassoTrace.cfg", f, tag="replay-" + name)
        for b in bads:
            print("REPLAY-BAD (%s)" % name, b)
            rc = 1
    return rc
