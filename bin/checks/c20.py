"""C20 — all matrix back ends give the same answers.  DESIGN.md §3 "C03 / C20".
Specification: spec/linalg/MatrixADT.tla (the value every operation must return, instantiated at
DenseMatrix<f64>, ndarray::Array2<f64>, nalgebra::DMatrix<f64> through MatrixTrace.tla) and
spec/linalg/BackendAgree.tla (the three observations of one call / one estimator agree)."""
import json
import os

import vlib
from checks import c03

LEVEL = "model_checking"

RULE = ("op-programs (12 calls, 4 registers, the BaseMatrix / BaseVector / stats / high-order vocabulary) generated on "
        "DenseMatrix<f64> and replayed call by call on ndarray::Array2<f64> and nalgebra::DMatrix<f64> (+ Array1 / "
        "RowDVector), shapes 1..8 incl. 1xN, Nx1, mixed-sign / all-negative / all-positive data, registers produced by "
        "transpose and by column-major constructors (non-standard layout), ~20% incompatible shape pairs; every event "
        "validated against MatrixADT per back end and the three observations of each call compared by BackendAgree; "
        "plus 35 decompositions / deterministic estimators / metrics on identical integer-valued data on the three back "
        "ends.  Non-trivial: a non-square, sign-mixed, all-negative or transposed operand, an incompatible-shape call, "
        "or an estimator run; distinct = distinct (op, back end, operand shapes, sign class, layout, outcome) tuples")

MC_ACTIONS = c03.MC_ACTIONS

ELEMENTWISE = {"add", "sub", "mul", "div", "add_mut", "sub_mut", "mul_mut", "div_mut", "copy_from",
               "v_add", "v_sub", "v_mul", "v_div", "v_add_mut", "v_sub_mut", "v_mul_mut", "v_div_mut", "v_copy_from"}


FLOAT_OPS = {"column_mean", "mean", "var", "std", "cov", "div", "div_mut", "div_scalar", "div_scalar_mut", "scale_mut",
             "softmax_mut", "v_mean", "v_var", "v_std", "v_div", "v_div_mut", "v_div_scalar", "v_div_scalar_mut",
             "norm_half", "v_norm_half", "norm_neg", "v_norm_neg"}


def shape(X):
    return (X[1], X[2]) if X else None


def broadcastable(B, A):
    """can an ndarray of shape B be broadcast to shape A (each dimension equal or 1)?"""
    return all(b == a or b == 1 for a, b in zip(shape(A), shape(B)))


def key20(e, A, B, clause):
    """the input class of a failing call on a back end (same classes for MatrixTrace and BackendAgree failures)"""
    be, op = e["be"], e["op"]
    if be == "dense":
        return c03.key_of(e, A, B, clause)
    if op == "cov":
        return "%s cov: not implemented (panics)" % be
    if op in ("to_row_vector", "reshape") and A and A[1] >= 2 and A[2] >= 2:
        if be == "nalgebra" and op == "to_row_vector":
            return "nalgebra to_row_vector: >=2 rows and >=2 columns (column-major flattening)"
        if be == "ndarray" and e.get("atr"):
            return "ndarray %s: operand possibly not in row-major memory layout (derived from transpose / column-major constructor / h_stack / ab)" % op
    if op in ("approximate_eq", "v_approximate_eq") and A and B and shape(A) != shape(B):
        return "%s %s: operands of different shape (must answer false)" % (be, op)
    if be == "ndarray" and op == "dot" and A and B and A[2] == 1 and B[2] == 1 and (A[1] >= 2 or B[1] >= 2):
        return "ndarray dot: column-vector operands (Nx1)"
    if be == "nalgebra" and op == "dot" and A and B and shape(A) != shape(B) and A[1] * A[2] == B[1] * B[2]:
        return "nalgebra dot: row vector against column vector of the same length (panics)"
    if be == "ndarray" and op == "from_row_vector" and e.get("anat"):
        return "ndarray from_row_vector: vector derived from a natively constructed array (inverted axis: negative stride)"
    if be == "ndarray" and op == "unique" and e.get("anat"):
        return ("ndarray unique: operand cut out of a larger ndarray buffer (slice_move / slice_axis_inplace / "
                "remove_index / stepped slice)")
    if be == "nalgebra" and op == "max" and A and all(x < 0 for x in A[3]):
        return "nalgebra max: all entries negative (starts from 0)"
    if be == "nalgebra" and op == "min" and A and all(x > 0 for x in A[3]):
        return "nalgebra min: all entries positive (starts from 0)"
    # (the classes below were genuine defects of the tree, since repaired by `fix:` commits; the class names are kept
    #  so that a recurrence is reported under a recognisable key -- a "fixed" entry of known_findings suppresses nothing)
    if be == "ndarray" and op in ELEMENTWISE and A and B and shape(A) != shape(B) and broadcastable(B, A):
        return "ndarray element-wise binary op: second operand broadcastable to the first is accepted, not rejected"
    return c03.key_of(e, A, B, clause)


EST_KEYS = {
    ("lasso", "nalgebra"): "lasso on nalgebra: does not terminate / panics (line search tests newf.max() < 0, nalgebra max starts from 0)",
    ("elastic_net", "nalgebra"): "elastic_net on nalgebra: does not terminate / panics (line search tests newf.max() < 0, nalgebra max starts from 0)",
    ("lasso", "ndarray"): "lasso on ndarray: different coefficients or no termination (BaseMatrix::dot on column vectors returns a[0]*b[0])",
    ("elastic_net", "ndarray"): "elastic_net on ndarray: different coefficients or no termination (BaseMatrix::dot on column vectors returns a[0]*b[0])",
}


def deviating(e):
    """back ends whose observation differs from the dense one (for the key of an Agree / Est failure)"""
    ref = e["obs"][0]
    tol = 4 if e["ev"] == "Est" else (2 if e["op"] in FLOAT_OPS else 0)
    dev = []
    for o in e["obs"][1:]:
        same = (o["status"] == ref["status"] and o.get("kind") == ref.get("kind") and o.get("d") == ref.get("d")
                and o.get("r") == ref.get("r") and o.get("c") == ref.get("c") and o.get("bool") == ref.get("bool")
                and len(o["out"]) == len(ref["out"]) and all(abs(x - y) <= tol for x, y in zip(o["out"], ref["out"])))
        if not same:
            dev.append(o["be"])
    return dev or ["all"]


def run(ctx):
    """A run that found violations exits 1 even if a later step of the driver fails."""
    try:
        return run_steps(ctx)
    except vlib.ToolError as err:
        if not ctx.violations:
            raise
        vlib.log("[note] tool error after %d violation(s) were reported (%s): the violations stand" % (len(ctx.violations), err))
        return ctx.finish(RULE, 0, exhaustive=False)


def run_steps(ctx):
    ctx.build()
    # (A) design model of the three storage layouts: the transcribed DenseMatrix methods refine the ADT; the
    #     transcribed ndarray / nalgebra methods do so under the stated layout conditions, and the Witness actions
    #     exhibit the inputs on which they do not (the ADT state machine itself is model-checked by C03)
    ctx.tlc_mc("linalg/MatrixADTLayout.tla", "linalg/MatrixADTLayout_%s.cfg" % ctx.tier, timeout=1500,
               must_cover=("WitnessNdFlatten", "WitnessNdReshape", "WitnessNaFlatten", "WitnessNaMax", "WitnessNaMin",
                           "WitnessNdDotColumn", "WitnessNdDotLength", "WitnessEqBufferOnly"))
    fev = ctx.path("c20-events.ndjson")
    fag = ctx.path("c20-agree.ndjson")
    ctx.harness("gen-prog", fev, fag)
    events = vlib.read_ndjson(fev)
    # (1) every back end against the ADT specification
    vlib.write_ndjson(ctx.path("c20-events-v.ndjson"), events)
    v, bads = ctx.tlc_trace("linalg/MatrixTrace.tla", "linalg/MatrixTrace.cfg", ctx.path("c20-events-v.ndjson"),
                            must_hit=c03.must_hit(False))
    ops = c03.annotate(events)
    for (l, runid, op, clause) in bads:
        e = events[l - 1]
        A, B = ops[l - 1]
        if clause in ("Malformed", "UnknownOp"):
            if ctx.violations:
                continue
            raise vlib.ToolError("harness emitted a call the specification cannot interpret: line %d %s %s" % (l, op, clause))
        what = "%s on %s: clause %s" % (op, e["be"], clause)
        if A:
            what += " A=%dx%d%s %s" % (A[1], A[2], " (transposed layout)" if e.get("atr") else "", json.dumps(A[3][:12]))
        if B:
            what += " B=%dx%d" % (B[1], B[2])
        if e.get("out"):
            what += " observed %s" % json.dumps(e["out"][:8])
        elif e.get("d"):
            what += " observed %s" % json.dumps(e["d"][:12])
        ctx.report(key20(e, A, B, clause), what, c03.run_events(events, l - 1))
    # (2) the three observations of every call agree
    agree = vlib.read_ndjson(fag)
    # index of the per-back-end events: (be, program, step) -> position in `events`
    pos = {}
    for i, e in enumerate(events):
        if e["ev"] == "Op":
            pos[(e["be"], e["run"] // 3, e["step"])] = i
    va, badsa = ctx.tlc_trace("linalg/BackendAgree.tla", "linalg/BackendAgree.cfg", fag,
                              must_hit=("agree_ok", "agree_reject", "agree_float", "agree_transposed_operand"))
    for (l, runid, op, clause) in badsa:
        a = agree[l - 1]
        for be in deviating(a):
            i = pos.get((be, a["run"], a["step"]))
            if i is None:
                key = "%s %s: %s (no event of this back end)" % (be, op, clause)
                ctx.report(key, "%s: back ends disagree (%s), %s deviates" % (op, clause, be), [a])
                continue
            e = events[i]
            A, B = ops[i]
            what = "%s: back ends disagree (%s); %s deviates from dense: %s vs %s" % (
                op, clause, be, json.dumps([o for o in a["obs"] if o["be"] == be][0])[:200], json.dumps(a["obs"][0])[:200])
            ctx.report(key20(e, A, B, clause), what, c03.run_events(events, i) + [a])
    # (3) decompositions and estimators on the three back ends
    fest = ctx.path("c20-est.ndjson")
    ctx.harness("gen-est", fest)
    est = vlib.read_ndjson(fest)
    ve, badse = ctx.tlc_trace("linalg/BackendAgree.tla", "linalg/BackendAgree.cfg", fest,
                              must_hit=("est_exact", "est_float", "est_err"), tag="trace-c20-est")
    for (l, runid, op, clause) in badse:
        a = est[l - 1]
        for be in deviating(a):
            key = EST_KEYS.get((op, be), "estimator %s: %s deviates (%s), n=%d p=%d" % (op, be, clause, a["n"], a["p"]))
            ctx.report(key, "%s on identical data: %s; observations %s" % (
                op, clause, json.dumps([(o["be"], o["status"], o["out"][:4]) for o in a["obs"]])), [a])
    ctx.evaluations = sum(1 for e in events if e["ev"] != "Reset") + len(agree) + len(est)
    ctx.traces = sum(1 for e in events if e["ev"] == "Reset") + len(est)
    nt = set()
    for e, (A, B) in zip(events, ops):
        t = c03.nontrivial_tuple(e, A, B)
        if t or (e["ev"] == "Op" and (e.get("atr") or e.get("btr"))):
            nt.add(json.dumps((t, e.get("atr"), e.get("btr"), e["op"], e["be"], shape(A), shape(B))))
    for a in est:
        nt.add(json.dumps(("est", a["op"], a["n"], a["p"], a["problem"])))
    ctx.samples = [x for x in agree if x["op"] == "ab" and (x["atr"] or x["btr"])][:1] \
        + [x for x in agree if x["op"] == "reshape" and x["atr"]][:1] \
        + [x for x in est if x["op"] == "linear_qr"][:1]
    ctx.extra["steps_skipped_after_first_disagreement"] = va.get("hits", {}).get("skipped_after_disagreement", 0)
    ctx.assumptions = c03_assumptions() + [
        "a program is compared step by step until the first disagreement; the remaining steps of that program are "
        "validated per back end only (their registers differ)",
        "agreement tolerance: 0 for integer-valued and discrete observables, 2 (ops) / 4 (estimators) units of 2^-10 "
        "for real-valued ones; a watchdog of 10 s turns a hang into the outcome 'timeout'",
        "randomised or documented-random estimators (k-means, SVC, unseeded KFold) are not compared"]
    return ctx.finish(RULE, len(nt), exhaustive=False)


def c03_assumptions():
    return ["integer-valued entries chosen so that exact results are representable; real-valued results compared at 2^-10",
            "softmax constrained for vectors only; argmax ties and order of unique unconstrained; dot only on "
            "row/row and column/column pairs"]


def replay(ctx, path):
    d = json.load(open(path))
    evs = [e for e in d["events"] if e.get("ev") in ("Reset", "Op", "Stat")]
    other = [e for e in d["events"] if e.get("ev") in ("Agree", "Est")]
    rc = 0
    if evs:
        f = ctx.path("replay-in.ndjson")
        vlib.write_ndjson(f, evs)
        ctx.build()
        g = ctx.path("replay-out.ndjson")
        ctx.harness("replay-events", f, g)
        ev = vlib.read_ndjson(g)
        v, bads = ctx.tlc_trace("linalg/MatrixTrace.tla", "linalg/MatrixTrace.cfg", g)
        for b in bads:
            print("REPLAY-BAD", b, json.dumps(ev[b[0] - 1])[:400])
        rc = 1 if bads else 0
    if other:
        f = ctx.path("replay-agree.ndjson")
        vlib.write_ndjson(f, other)
        v, bads = ctx.tlc_trace("linalg/BackendAgree.tla", "linalg/BackendAgree.cfg", f, tag="trace-replay-agree")
        for b in bads:
            print("REPLAY-BAD", b)
        rc = 1 if bads or rc else 0
    return rc
