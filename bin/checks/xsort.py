"""Stand-alone driver for the QuickArgSort sub-check (development aid: `bin/vcheck XSORT quick`).
Writes evidence/XSORT.json; not a registered property check — C05 and C15 call sortlib.run_sort."""
import vlib
from checks import sortlib

LEVEL = "model_checking"


def run(ctx):
    n = sortlib.run_sort(ctx)
    ctx.evaluations = n
    ctx.traces = n
    ctx.samples = ["see evidence of C05 / C15"]
    return ctx.finish("all vectors of length <= 9 over {0,1,2} + seeded random vectors; non-trivial = length >= 8 (partition path) with ties", n, exhaustive=False)


def replay(ctx, path):
    return 2
