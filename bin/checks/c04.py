"""C04 — nearest-neighbour search is exact; k-NN estimators predict from exact neighbours.
DESIGN.md §3 C04.

Model checking (spec/neighbour):
  HeapSelect.tla    array-level machine of the bounded heap + contract          (design model)
  LinearFind.tla    LinearKNNSearch::find over the heap machine                 (design model)
  CoverTreeMC.tla   batch_insert / find / find_radius transcribed               (design model)
  KnnPredMC.tla     IsKnn / IsRadius against their declarative forms, all key vectors
  KnnLatticeMC.tla  every multiset of <= N points of the 3x3 lattice            (input enumerator)
Each of them prints REPLAY lines that the harness runs through the real code; everything the
real code returns is judged by KnnTrace.tla (IsKnn, IsRadius, heap contract, PredClassOK,
PredRegOK).  Differences between the real code and a design model that do not falsify a
property predicate are MODEL-DRIFT.
"""
import json
import math
import os
import re
import threading
from concurrent.futures import ThreadPoolExecutor

import vlib

LEVEL = "model_checking"

RULE = ("spec->impl: every multiset of <= N points of the 3x3 lattice (TLC-enumerated; N = 3 quick, 6 thorough), in canonical order "
        "and two rotations (five-point multisets: one rotation, six-point multisets: canonical order only), x 13 queries (9 lattice, 4 off-lattice) x {Manhattan, Euclid, "
        "Minkowski-3, Hamming} x {LinearKNNSearch, CoverTree} x every k in 0..n+1 x every radius at / between / below / above the "
        "occurring distances and r = 0, r < 0; every reachable state of the heap model, every behaviour of the linear-search model and "
        "every data sequence of the cover-tree model replayed through the real code.  impl->spec: seeded random data sets of 1..200 "
        "points in 1..6 dimensions (small lattices, collinear, few distinct points, all identical, wide lattice, continuous uniform / "
        "clustered with duplicates / 1-D; keys of continuous data = dense ranks of the library's distances), in- and out-of-sample "
        "queries; k-NN classifier / regressor on lattice training sets of <= 12 rows (a single row and all rows identical included), "
        "both algorithms, both weightings, every k in 0..n+1, the parameter object built in a random one of the 24 orders of "
        "with_k / with_weight / with_algorithm / with_distance, by field assignment before / after with_distance, or (Euclid) "
        "without with_distance.  A find is non-trivial when the k-th distance is tied with a point outside the answer or the query coincides with a "
        "data point (decided by the TLA+ operators TieAtK / QueryInData); an estimator prediction is non-trivial when more than one "
        "k-nearest set exists.  Cases are distinct by construction (each (data order, query, metric, structure, k) is generated once).")

NOT_COVERED = ["a NaN radius (outside the domain r > 0 / r <= 0 of the statement: never generated, nothing demanded)", "Mahalanobis as the search metric", "data sets beyond ~1000 points (3000 in the thorough tier), single precision (f32)",
               "exactness of a returned distance below the resolution of the integer key / rank projection "
               "(a distance that differs from the true one by less than 1e-6 relative is not noticed on lattice data; on continuous "
               "data the returned distance is compared bit-exactly, through ranks, with the library's own metric)",
               "inverse-distance weighting under Euclid / Minkowski metrics (irrational weights): run with uniform weights only",
               "radius queries whose radius equals a data distance exactly are checked (kind 'at') only because both structures "
               "compare the same floating-point numbers; no claim is made for radii within a few ulps of a data distance"]

# Keys of the input classes this check has reported.  The two construction panics (and their
# estimator counterparts) were repaired in /repo (02cd5f3, b27e8d1; entries "fixed" in
# known_findings/C04.json, which suppresses nothing): should they come back they are reported as
# violations under the same keys.  Single-point and all-identical data are ordinary passing
# cases now and must be exercised (must-hit N1*/Ident*/EstN1*/EstIdent* below).
KNOWN_KEYS = {
    "n1": "CoverTree::new panics on a one-point data set",
    "ident": "CoverTree::new panics when all (n >= 2) points are identical (overflow checks on)",
    "radius-boundary": "CoverTree::find_radius misses points at distance exactly r (inexact metric arithmetic: r + max_dist rounds below d)",
    "est-n1": "k-NN estimator fit with the CoverTree algorithm panics on a single training row",
    "est-ident": "k-NN estimator fit with the CoverTree algorithm panics when all training rows are identical",
}


def multisets_upto(n):
    return sum(math.comb(8 + i, i) for i in range(1, n + 1))


def key_of(e, clause):
    ev = e.get("ev")
    if ev in ("Sweep", "Tree"):
        if clause == "Build" and e.get("backend", "cover") == "cover" and e.get("build") == "panic":
            if e.get("n") == 1:
                return KNOWN_KEYS["n1"]
            if e.get("ident"):
                return KNOWN_KEYS["ident"]
        # metrics whose floating-point evaluation is exact on the lattice data sent by the harness (multiples of 1/2):
        # Manhattan, Minkowski-1, and Hamming over 1, 2 or 4 coordinates (d = count/len)
        exact = e.get("src") == "lat" and (e.get("metric") == "man" or (e.get("metric") == "mink" and e.get("p") == 1)
                                           or (e.get("metric") == "ham" and len(e.get("q", [])) in (1, 2, 4)))
        if clause == "Radius:at:boundary-miss" and e.get("backend") == "cover" and not exact:
            return KNOWN_KEYS["radius-boundary"]
        return "%s %s: backend=%s metric=%s/%s src=%s n=%s" % (ev, clause, e.get("backend", "cover"), e.get("metric", "man"),
                                                           e.get("p", 1), e.get("src", "lat"), e.get("n"))
    if ev == "KnnPredict":
        if clause == "EstFit" and e.get("backend") == "cover" and e.get("fit") == "panic":
            if e.get("n") == 1:
                return KNOWN_KEYS["est-n1"]
            if e.get("ident"):
                return KNOWN_KEYS["est-ident"]
        return "KnnPredict %s: kind=%s backend=%s metric=%s weight=%s order=%s n=%s k=%s" % (
            clause.split(":")[0], e.get("kind"), e.get("backend"), e.get("metric"), e.get("weight"), e.get("order"),
            e.get("n"), e.get("k"))
    if ev == "Heap":
        return "Heap %s: src=%s k=%s" % (clause.split(":")[0], e.get("src"), e.get("k"))
    if ev == "LinFind":
        return "LinFind: n=%s k=%s" % (len(e.get("keys", [])), e.get("k"))
    return "%s %s" % (ev, clause)


def nth_lines(path, wanted):
    """events at the given 1-based line numbers, without loading the whole file"""
    wanted = set(wanted)
    out = {}
    if not wanted:
        return out
    last = max(wanted)
    with open(path) as f:
        for i, line in enumerate(f, 1):
            if i in wanted:
                out[i] = json.loads(line)
            if i >= last:
                break
    return out


def write_inputs(path, prints):
    with open(path, "w") as f:
        n = 0
        for tag, body in prints:
            if tag == "REPLAY":
                f.write(body + "\n")
                n += 1
    return n


def actions_in(ctx, tag):
    """per-action counts from a TLC -coverage run, including actions whose location carries a
    parenthesised sub-expression span (which vlib's pattern does not match)"""
    text = open(ctx.path(tag + ".out"), errors="replace").read()
    cov = {}
    for m in re.finditer(r"^<(\w+) line [^>]*>: (\d+):(\d+)", text, re.M):
        cov[m.group(1)] = cov.get(m.group(1), 0) + int(m.group(3))
    return cov


class Acc:
    """hit counters summed over all trace validations"""

    def __init__(self):
        self.hits = {}
        self.lock = threading.Lock()
        self.bads = []      # (file, line, clause)

    def add(self, f, v, bads):
        with self.lock:
            for k, n in v.get("hits", {}).items():
                self.hits[k] = self.hits.get(k, 0) + n
            for (l, run, ev, clause) in bads:
                self.bads.append((f, l, clause))

    def __getitem__(self, k):
        return self.hits.get(k, 0)


def run(ctx):
    ctx.build()
    tier = ctx.tier
    acc = Acc()

    # ------------------------------------------------------------------ 1. model checking
    def mc(spec, cfg, cover, keep=True, timeout=1500, workers=2):
        return ctx.tlc_mc("neighbour/" + spec, "neighbour/" + cfg, workers=workers, timeout=timeout,
                          must_cover=cover, keep_prints=keep)

    jobs = {
        "heap": lambda: mc("HeapSelect.tla", "HeapSelectMC_%s.cfg" % tier, ("ReplaceRoot", "DoHeapify")),
        "pred": lambda: mc("KnnPredMC.tla", "KnnPredMC_%s.cfg" % tier, ("Check",), keep=False),
        "lat": lambda: mc("KnnLatticeMC.tla", "KnnLatticeMC_%s.cfg" % tier, ("Check",)),
        "lin": lambda: mc("LinearFind.tla", "LinearFindMC_%s.cfg" % tier, ("Fill", "ScanReplace", "ScanSkip", "Finish")),
        "ct1": lambda: mc("CoverTreeMC.tla", "CoverTreeMC_%s.cfg" % tier, ("BuildStep",)),
        "ct2": lambda: mc("CoverTreeMC.tla", "CoverTreeMC2_%s.cfg" % tier, ("BuildStep",)),
    }
    if tier == "thorough":
        jobs["ct3"] = lambda: mc("CoverTreeMC.tla", "CoverTreeMC3_thorough.cfg", ("BuildStep",))
    res = {}
    with ThreadPoolExecutor(max_workers=4) as ex:
        futs = {k: ex.submit(f) for k, f in jobs.items()}
        for k, f in futs.items():
            res[k] = f.result()          # re-raises ToolError
    cov = actions_in(ctx, "mc-HeapSelectMC_%s" % tier)
    for a in ("AddFill", "AddReplace", "AddSkip", "ReplaceRoot", "DoHeapify"):
        if cov.get(a, 0) == 0:
            raise vlib.ToolError("vacuous model run: action %s of HeapSelect never taken" % a)

    f_heap_in = ctx.path("c04-heap-in.ndjson")
    n_heap_in = write_inputs(f_heap_in, res["heap"][1])
    f_lin_in = ctx.path("c04-lin-in.ndjson")
    n_lin_in = write_inputs(f_lin_in, res["lin"][1])
    f_tree_in = ctx.path("c04-tree-in.ndjson")
    n_tree_in = write_inputs(f_tree_in, [p for k in ("ct1", "ct2", "ct3") if k in res for p in res[k][1]])
    lat_lines = [b for t, b in res["lat"][1] if t == "REPLAY"]
    max_n = 3 if tier == "quick" else 6
    if len(lat_lines) != multisets_upto(max_n) or len(set(lat_lines)) != len(lat_lines):
        raise vlib.ToolError("lattice enumeration printed %d multisets, expected %d" % (len(lat_lines), multisets_upto(max_n)))
    if min(n_heap_in, n_lin_in, n_tree_in) == 0:
        raise vlib.ToolError("a design model printed no REPLAY line")

    # ------------------------------------------------------------------ 2. the real code
    files = {}      # name -> path of a recorded trace
    for name, args in (("edge", ()), ("random", ()), ("est", ()), ("ladder", ()), ("deep", ()), ("estbig", ()),
                       ("heap", (f_heap_in,)), ("lin", (f_lin_in,)), ("tree", (f_tree_in,))):
        f = ctx.path("c04-%s.ndjson" % name)
        sub = {"edge": "gen-edge", "random": "gen-random", "est": "gen-est", "heap": "gen-heap", "lin": "gen-linfind",
               "tree": "gen-tree", "ladder": "gen-ladder", "deep": "gen-deep", "estbig": "gen-estbig"}[name]
        ctx.harness(sub, *(list(args) + [f]))
        files[name] = f

    must = {
        "edge": ("Sweep", "Find", "FindErr", "Radius", "RadiusErr", "RadiusAt", "RadiusInf", "TieAtK", "QueryInData", "linear", "cover",
                 "man", "euc", "mink", "ham", "N1cover", "N1linear", "Identcover", "Identlinear"),
        "random": ("Sweep", "Find", "FindErr", "Radius", "RadiusErr", "RadiusInf", "TieAtK", "QueryInData", "linear", "cover",
                   "man", "euc", "mink", "ham", "lat", "cont"),
        "est": ("KnnPredict", "ClsPred", "RegPred", "EstErr", "EstTieAtK", "EstDistance", "EstUnconstrained",
                "EstN1clscover", "EstN1regcover", "EstN1clslinear", "EstN1reglinear",
                "EstIdentclscover", "EstIdentregcover", "EstIdentclslinear", "EstIdentreglinear",
                "EstWeightBeforeDistancecls", "EstWeightBeforeDistancereg", "EstViaFields", "EstDefaultMetric",
                "EstSignedZeroLabels", "EstApiinherent", "EstApitrait"),
        # size ladder 63 .. 1025 (3000 thorough) for both structures; deep / multi-scale data; large estimators
        "ladder": ("Sweep", "Find", "FindErr", "Radius", "RadiusErr", "RadiusAt", "RadiusInf", "linear", "cover",
                   "NOver256cover", "NOver256linear", "NOver1024cover", "NOver1024linear"),
        "deep": ("Sweep", "Find", "Radius", "RadiusAt", "TieAtK", "linear", "cover", "cont", "man", "euc"),
        "estbig": ("KnnPredict", "ClsPred", "RegPred", "EstDistance", "EstBatchOver256", "EstBatchOver512", "EstTrainOver256", "EstManyClasses",
                   "EstApiinherent", "EstApitrait"),
        "heap": ("Heap", "HeapTlc"),
        "lin": ("LinFind",),
        "tree": ("Tree", "TreeFind"),
        "lattice": ("Sweep", "Find", "FindErr", "Radius", "RadiusErr", "RadiusAt", "RadiusInf", "TieAtK", "QueryInData", "linear", "cover",
                    "man", "euc", "mink", "ham"),
        "lattice0": ("Sweep", "N1cover", "N1linear", "Identcover", "Identlinear"),
    }

    def validate(name, path, hit_names, keep=True):
        v, bads = ctx.tlc_trace("neighbour/KnnTrace.tla", "neighbour/KnnTrace.cfg", path, must_hit=hit_names,
                                timeout=3000, heap="3g")
        acc.add(path, v, bads)
        return v

    # lattice sweeps: chunks of multisets, generated, validated and deleted one by one
    chunk = 40 if tier == "quick" else 60
    chunks = [lat_lines[i:i + chunk] for i in range(0, len(lat_lines), chunk)]
    lat_events = [0]
    lat_samples = []

    def lattice_job(ci):
        fin = ctx.path("c04-lat-in-%d.ndjson" % ci)
        with open(fin, "w") as f:
            f.write("\n".join(chunks[ci]) + "\n")
        fout = ctx.path("c04-lat-%d.ndjson" % ci)
        ctx.harness("gen-lattice", fin, fout)
        nb = len(acc.bads)
        v = validate("lattice", fout, must["lattice"] if ci == len(chunks) - 1 else must["lattice0"] if ci == 0 else ("Sweep",))
        with acc.lock:
            lat_events[0] += v["consumed"]
            mine = [b for b in acc.bads if b[0] == fout]
        if ci in (0, len(chunks) - 1):
            got = nth_lines(fout, [3, 200])
            lat_samples.extend(got.values())
        # keep the file only if something in it has to be reported
        if not mine:
            os.remove(fout)
        os.remove(fin)

    par = 4 if tier == "quick" else 6
    with ThreadPoolExecutor(max_workers=par) as ex:
        futs = [ex.submit(validate, n, files[n], must[n])
                for n in ("estbig", "edge", "random", "est", "ladder", "deep", "heap", "lin", "tree")]
        futs += [ex.submit(lattice_job, ci) for ci in range(len(chunks))]
        for f in futs:
            f.result()

    # ------------------------------------------------------------------ 3. verdicts
    by_file = {}
    for (f, l, clause) in acc.bads:
        by_file.setdefault(f, []).append((l, clause))
    for f, items in sorted(by_file.items()):
        evs = nth_lines(f, [l for l, _ in items])
        for (l, clause) in sorted(items):
            e = evs[l]
            ctx.report(key_of(e, clause), "%s fails on event %d of %s (%s)" % (clause, l, os.path.basename(f), e.get("ev")), [e])

    # the lattice chunks that had something to report are not needed any more (violating events
    # are stored in the replay artefacts)
    for f in by_file:
        if os.path.basename(f).startswith("c04-lat-") and os.path.exists(f):
            os.remove(f)

    # ------------------------------------------------------------------ 4. evidence
    ctx.states = sum(r["distinct"] for r in ctx.mc_runs) + sum(r["events"] + 1 for r in ctx.trace_runs)
    ctx.transitions = sum(r["generated"] for r in ctx.mc_runs) + sum(r["events"] for r in ctx.trace_runs)
    ctx.drift = acc["HeapDrift"] + acc["LinDrift"] + acc["TreeDrift"] + acc["TreeFindDrift"]
    if ctx.drift:
        vlib.log("MODEL-DRIFT property=C04: heap %d, linear-find order %d, cover-tree structure %d, cover-tree answers %d"
                 % (acc["HeapDrift"], acc["LinDrift"], acc["TreeDrift"], acc["TreeFindDrift"]))
    if acc["EstSkipped"]:
        raise vlib.ToolError("%d estimator events outside the 32-bit range of the vote specification" % acc["EstSkipped"])
    ctx.traces = sum(r["events"] for r in ctx.trace_runs)
    ctx.evaluations = (acc["Find"] + acc["FindErr"] + acc["Radius"] + acc["RadiusErr"] + acc["BuildFail"] + acc["ClsPred"]
                       + acc["RegPred"] + acc["EstErr"] + acc["EstUnconstrained"] + acc["Heap"] + acc["LinFind"] + acc["TreeFind"])
    small = vlib.read_ndjson(files["edge"])
    rnd = nth_lines(files["random"], [5])
    est = [e for e in vlib.read_ndjson(files["est"]) if e["fit"] == "ok" and e["weight"] == "distance" and e["k"] == 3][:1]
    heap = [e for e in vlib.read_ndjson(files["heap"]) if e["src"] == "rand-linear"][:1]
    ctx.samples = ([x for x in small if x["backend"] == "cover" and x["build"] == "ok"][:1] + lat_samples[:1] + est + heap
                   + [{"note": "random sweep event (abridged)", "n": rnd[5]["n"], "metric": rnd[5]["metric"], "src": rnd[5]["src"],
                       "backend": rnd[5]["backend"], "finds": [{"k": f["k"], "status": f["status"]} for f in rnd[5]["finds"]]}]
                   if rnd else [])
    ctx.extra = {
        "hits": acc.hits,
        "lattice": {"multisets": len(lat_lines), "max_points": max_n, "sweep_events": lat_events[0]},
        "replayed_from_tlc": {"heap_states": n_heap_in, "linear_find_behaviours": n_lin_in, "cover_tree_data_sequences": n_tree_in},
        "unconstrained": {"classifier k=1": acc["EstUnconstrained"]},
        "not_covered": NOT_COVERED,
    }
    ctx.assumptions = [
        "on lattice data a distance is identified with its integer key (u*d, (u*d)^2, (u*d)^p, d*len), recovered by rounding; "
        "a value further than 1e-6 (relative) from an integer is rejected",
        "on continuous data the true distances are those of the library's own metric (checked separately by C17); keys are their dense ranks",
        "the harness is compiled with overflow checks and debug assertions on (as the repository's own tests are)",
    ]
    nontrivial = acc["NonTrivial"] + acc["EstTieAtK"]
    return ctx.finish(RULE, nontrivial, exhaustive=True,
                      explanation="exhaustive = the lattice multisets up to %d points and the model-checking scopes listed under "
                                  "model_checking_runs were enumerated completely; the random part is sampled (seed %d)" % (max_n, ctx.seed))


def replay(ctx, path):
    ctx.build()
    d = json.load(open(path))
    fin = ctx.path("replay-in.ndjson")
    vlib.write_ndjson(fin, d["events"])
    fout = ctx.path("replay.ndjson")
    ctx.harness("rerun", fin, fout)
    rc = 0
    for label, f in (("recorded", fin), ("re-executed", fout)):
        v, bads = ctx.tlc_trace("neighbour/KnnTrace.tla", "neighbour/KnnTrace.cfg", f, tag="trace-replay-" + label)
        for b in bads:
            print("REPLAY-BAD (%s)" % label, b)
        if label == "re-executed" and bads:
            rc = 1
    return rc
