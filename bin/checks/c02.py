"""C02 — eigen-decomposition returns genuine eigenvalues and eigenvectors.
DESIGN.md §3 "numerical kernels" (kind B contract specification, coarse fixed-point level).

impl -> spec: harness/c02 drives the real evd(true) / evd(false) on exhaustive small domains and
seeded random families; spec/linalg/EigenTrace.tla evaluates Judge(e) of Eigen.tla on every call."""
import json

import vlib

LEVEL = "exploration"

RULE = ("every recorded call evd(symmetric) on integer-valued square matrices of order 1..12 (|entries| <= 16, cap 4 from "
        "order 8) plus a size ladder at orders 20, 33, 64 (entries clamped to +-2) in f64 and f32; symmetric solver: dense, repeated eigenvalues (aI+bJ, Hadamard-conjugated diagonals), "
        "diagonal, block-diagonal, low-rank Gram, tridiagonal with zero couplings, zero matrix, each also scaled by 2^40 / "
        "2^-40; general solver: dense, triangular (repeated diagonal), companion, rotation blocks (plain and mixed by a "
        "unimodular similarity), badly balanced (D A D^-1, D = diag(2^k), |k| <= 5 in f64, <= 1 in f32), normal (skew+cI, "
        "circulant, symmetric), "
        "nilpotent (defective), signed permutations, block upper triangular, and structured profiles: diagonal + strictly upper "
        "part with an empty first super-diagonal, nilpotent with all mass >= 2 places above the diagonal (powers of a shift), block "
        "upper triangular with off-diagonal blocks 2^k times larger than the diagonal blocks, upper Hessenberg with zero first "
        "super-diagonal and sub-diagonal gaps, companion matrices (last column / first row), each also transposed or symmetrically "
        "permuted; exhaustive: all 729 symmetric 3x3 over "
        "{-1,0,1} through both solvers, all 2x2 over {-2..2} (thorough {-3..3}, and all 19683 3x3 over {-1,0,1}) through "
        "the general solver. A call is non-trivial when A is not diagonal (symmetric solver) or has a complex pair or a "
        "non-triangular shape (general solver); distinct = distinct (sym, width, se, bal, A) tuples")

SPEC = "linalg/EigenTrace.tla"
CFG = "linalg/EigenTrace.cfg"
CHUNK = 30000
MUST = ("EVD.sym", "EVD.gen.real", "EVD.gen.complex")
# input class of the defect repaired by commit aaa0add (status "fixed" in known_findings/C02.json: a
# recurrence is reported as a violation under this key)
OVERFLOW_KEY = ("evd(false): sort() computes `i as usize + 1` with i = -1 when an eigenvalue has to move to the front: "
                "'attempt to add with overflow' panic in builds with overflow checks (dev / test profile)")


HQR_DEFECTIVE = ("evd(false): 'Too many iterations in hqr' panic on a matrix with a repeated (defective) eigenvalue "
                 "(triangular with repeated diagonal / nilpotent)")
HQR_OTHER = "evd(false): 'Too many iterations in hqr' panic on other input (rare, about 1 in 10^4 badly balanced dense matrices)"


def repeated_diag_triangular(a):
    n = len(a)
    lower = all(a[i][j] == 0 for i in range(n) for j in range(n) if i < j)
    upper = all(a[i][j] == 0 for i in range(n) for j in range(n) if i > j)
    return (lower or upper) and len(set(a[i][i] for i in range(n))) < n


def key_of(e, clause):
    if (not e["sym"]) and e["status"] == "panic" and "Too many iterations in hqr" in e.get("msg", ""):
        if e["fam"].startswith("gen_nilpotent") or repeated_diag_triangular(e["A"]):
            return HQR_DEFECTIVE
        return HQR_OTHER
    if (not e["sym"]) and e["status"] == "panic" and "attempt to add with overflow" in e.get("msg", ""):
        return OVERFLOW_KEY
    return "evd(%s) %s w=%s se=%d fam=%s n=%d" % ("true" if e["sym"] else "false", clause, e["w"], e["se"], e["fam"], e["n"])


def nontrivial(e):
    if e["status"] != "ok" or not e["fin"] or not e["inr"]:
        return False
    a = e["A"]
    n = len(a)
    off = any(a[i][j] != 0 for i in range(n) for j in range(n) if i != j)
    if e["sym"]:
        return off
    lower = any(a[i][j] != 0 for i in range(n) for j in range(n) if i > j)
    upper = any(a[i][j] != 0 for i in range(n) for j in range(n) if i < j)
    return any(s != 0 for s in e["out"]["eSg"]) or (lower and upper)


def validate(ctx, path):
    events = vlib.read_ndjson(path)
    bads, hits = [], {}
    nchunks = max(1, (len(events) + CHUNK - 1) // CHUNK)
    for c in range(nchunks):
        part = events[c * CHUNK:(c + 1) * CHUNK]
        f = path if nchunks == 1 else path.replace(".ndjson", "-part%d.ndjson" % c)
        if nchunks > 1:
            vlib.write_ndjson(f, part)
        v, b = ctx.tlc_trace(SPEC, CFG, f, timeout=1500)
        for (l, run, ev, clause) in b:
            bads.append((part[l - 1], clause))
        for k, n in v.get("hits", {}).items():
            hits[k] = hits.get(k, 0) + n
    return events, bads, hits


def run(ctx):
    ctx.build()
    all_events, all_bads, all_hits, stats, vacuous = [], [], {}, {}, []
    # predicate-vs-closed-form model (2x2), and the model's spectra replayed through the real code
    mrun, prints = ctx.tlc_mc("linalg/EigenModel.tla", "linalg/EigenModelMC_%s.cfg" % ctx.tier, workers=4,
                              must_cover=("Solve", "Skip"), keep_prints=True)
    replays = [json.loads(p[1]) for p in prints if p[0] == "REPLAY"]
    rf = ctx.path("c02-model-replay.ndjson")
    vlib.write_ndjson(rf, replays)
    cf = ctx.path("c02-modelcmp.ndjson")
    ctx.harness("replay-spec", rf, cf)
    events, bads, hits = validate(ctx, cf)
    if len(events) != len(replays) or bads:
        raise vlib.ToolError("model comparison: %d replay lines, %d events, %d bad" % (len(replays), len(events), len(bads)))
    if hits.get("EVD=model", 0) == 0:
        vacuous.append("EVD=model in model comparison")
    ctx.drift = hits.get("drift:EVD", 0)
    if ctx.drift:
        vlib.log("MODEL-DRIFT property=C02: %d of %d 2x2 inputs on which the real spectrum differs from the closed-form model"
                 % (ctx.drift, len(events)))
    for k, n in hits.items():
        all_hits[k] = all_hits.get(k, 0) + n
    n_cmp = len(events)
    for sub in ("exhaustive", "random"):
        f = ctx.path("c02-%s.ndjson" % sub)
        p = ctx.harness("gen-" + sub, f)
        stats[sub] = json.loads(p.stdout.strip().splitlines()[-1])
        events, bads, hits = validate(ctx, f)
        vacuous += ["%s in %s" % (h, sub) for h in MUST if hits.get(h, 0) == 0]
        all_events += events
        all_bads += bads
        for k, n in hits.items():
            all_hits[k] = all_hits.get(k, 0) + n
    n = len(all_events) + n_cmp
    oor = sum(v for k, v in all_hits.items() if k.startswith("oor:"))
    if oor * 20 > n:
        raise vlib.ToolError("%d of %d events out of TLC's integer range: the run decides too little" % (oor, n))
    for (e, clause) in all_bads:
        ctx.report(key_of(e, clause), "evd(%s): clause %s violated (w=%s, se=%d, family %s, n=%d, status %s%s)"
                   % ("true" if e["sym"] else "false", clause, e["w"], e["se"], e["fam"], e["n"], e["status"],
                      ", " + e["msg"] if e.get("msg") else ""), [e])
    # the rare non-convergence on generic input is a listed finding; a *frequent* one is something else
    gen_n = sum(1 for e in all_events if not e["sym"])
    other = [e for (e, c) in all_bads if key_of(e, c) == HQR_OTHER]
    if len(other) > max(3, gen_n // 300):
        ctx.report("evd(false): hqr non-convergence on %d of %d general inputs outside the defective families" % (len(other), gen_n),
                   "'Too many iterations in hqr' far more often than the listed rare case", other[:5])
    if vacuous and not ctx.violations:
        raise vlib.ToolError("vacuous trace run: clause(s) never demanded-and-held: %s" % ", ".join(vacuous))
    ctx.evaluations = n
    ctx.traces = n
    nt = set()
    for e in all_events:
        if nontrivial(e):
            nt.add(vlib.digest([e["sym"], e["w"], e["se"], e["bal"], e["A"]]))
    pick = lambda pred: [x for x in all_events if pred(x)][:1]
    good = lambda x: x["status"] == "ok" and x["fin"] and x["inr"]
    ctx.samples = (pick(lambda x: x["sym"] and x["n"] == 3 and good(x) and x["fam"] == "sym_dense")
                   + pick(lambda x: (not x["sym"]) and x["n"] == 3 and good(x) and any(x["out"]["eSg"]))
                   + pick(lambda x: x["status"] == "panic"))
    ctx.extra["clause_hits"] = all_hits
    ctx.extra["out_of_range_events"] = oor
    ctx.extra["harness_stats"] = stats
    ctx.extra["not_covered"] = [
        "accuracy finer than about 2^-10 relative to ||A|| ('up to rounding error' is NOT decided)",
        "orders other than 1..12, 20, 33, 64; |entries| above 16 (cap 4 from order 8, 2 on the ladder); non-integer data",
        "uniform rescaling of general (non-symmetric) input (the statement quantifies it for symmetric input only)",
        "badly balanced input beyond a power-of-two spread of 2^10 (f64) / 2^2 (f32): accuracy is promised relative to the norm "
        "of the matrix fed, which the integer contract cannot resolve any more",
    ]
    ctx.assumptions = [
        "inputs are integer-valued matrices under exact power-of-two scalings / similarities; outputs descaled exactly",
        "general-solver eigenvector columns are normalised by an exact power of two before quantisation (scale-free clause)",
        "tolerance = worst-case quantisation error + 256*n*u*magnitude rounding slack (u = 2^-24 for f32, absorbed for f64)",
    ]
    return ctx.finish(RULE, len(nt), exhaustive=False,
                      explanation="exhaustive only on the small domains named in the rule; everything else is seeded sampling")


def replay(ctx, path):
    d = json.load(open(path))
    rc = 0
    f = ctx.path("replay-recorded.ndjson")
    vlib.write_ndjson(f, d["events"])
    v, bads = ctx.tlc_trace(SPEC, CFG, f)
    for b in bads:
        print("REPLAY-BAD recorded", b)
        rc = 1
    ctx.build()
    g = ctx.path("replay-rerun.ndjson")
    ctx.harness("replay-file", f, g)
    v, bads = ctx.tlc_trace(SPEC, CFG, g, tag="trace-replay-rerun")
    for b in bads:
        print("REPLAY-BAD rerun", b)
        rc = 1
    return rc
