"""C11 — naive Bayes stores the data's sufficient statistics and predicts the MAP class.
DESIGN.md §3 C11.

Deciding method: the TLA+ predicate NBVerdict of spec/bayes/NaiveBayes.tla evaluated by TLC
 (a) as the invariant of the design model NaiveBayesMC (fit / predict state machine over exact
     integers, explored exhaustively over small training sets), and
 (b) on every event recorded from the real GaussianNB / MultinomialNB / BernoulliNB /
     CategoricalNB by harness/c11 (NaiveBayesTrace.tla), including the training sets TLC itself
     enumerated from the model together with the model's predictions (REPLAY -> replay-spec).
"""
import json

import vlib

LEVEL = "model_checking"

RULE = ("The parameter object of every fit is built in a rotating order (every permutation of the variant's with_alpha / with_priors / "
        "with_binarize calls, or direct field assignment), recorded as `built`. One event = one fit of one variant (Gaussian, multinomial, Bernoulli with/without binarisation, categorical) on an "
        "integer training set, all reported statistics, and the predictions for 1..10 query rows whose values occurred in training. "
        "Exhaustive: every training set with n <= 2 (quick) / n <= 3, p = 1 (thorough) rows of p <= 2 features over {0,1,2} and labels "
        "from {-3,2,7} ({0,1,3} categorical) in any order, two of the alphas {1/2, 1, 2, 5} each, every query of the column product; "
        "sampled n = 3..4; every training set enumerated by the TLC design model (REPLAY) with alpha in {1/2, 2}; seeded random: 2..120 "
        "rows, 1..8 features, 2..5 classes with arbitrary integer labels and skewed frequencies, alpha in {1/100, 1/4, 1/2, 1, 2, 5}, "
        "user priors (a quarter with an exact zero), categorical labels with empty classes, Gaussian features rescaled by 2^-3..2^3 "
        "and per column by 2^-40 / 2^40 (features on wildly different scales), Gaussian fits on the ndarray (row-/column-major) and "
        "nalgebra back ends, the Gaussian 'translated copies' family on which the MAP decision is exactly decidable, and well separated "
        "Gaussian clusters with zero user priors queried from the zero-prior clusters. An event is non-trivial when the fit succeeded "
        "and (labels are not 0..k-1 in order, or alpha != 1, or priors were supplied) and at least two classes occur; "
        "distinct = distinct (variant, X, y, alpha, threshold, priors) tuples")

CHUNK = 4000


def key_of(e, clause):
    v = e.get("variant", "?")
    parts = ["nb", v]
    if v != "gaussian":
        parts.append("alpha%s1" % ("=" if e["aNum"] == e["aDen"] else ("<" if e["aNum"] < e["aDen"] else ">")))
    if v == "bernoulli":
        parts.append("binarize" if e["hasThr"] else "raw01")
    parts.append("user-priors" if e["hasPriors"] else "empirical-priors")
    ys = sorted(set(e["y"]))
    parts.append("labels-0..k-1" if ys == list(range(len(ys))) else "labels-arbitrary")
    if e["hasPriors"] and 0 in e["priorsNum"]:
        parts.append("zero-prior")
    if v == "gaussian" and e.get("e", 0) != 0:
        parts.append("rescaled")
    if v == "gaussian" and len(set(e.get("ecol", []))) > 1:
        parts.append("columns-rescaled")
    if e.get("built"):
        parts.append("built=" + e["built"])
    if e.get("backend", "dense") != "dense":
        parts.append(e["backend"])
    return " ".join(parts) + ": " + clause


def what_of(e, clause):
    small = {k: e[k] for k in ("variant", "X", "y", "aNum", "aDen", "hasThr", "thr2", "hasPriors", "priorsNum", "priorsDen", "e", "ecol", "backend", "built")}
    if len(e["X"]) > 12:
        small["X"] = "(%d rows x %d features, see replay file)" % (len(e["X"]), len(e["X"][0]))
        small["y"] = "(see replay file)"
    return "%s fails: %s -> status=%s out=%s queries=%s preds=%s (%s)" % (
        clause, json.dumps(small), e.get("status"), json.dumps(e.get("out"))[:600], json.dumps(e.get("queries"))[:200],
        json.dumps(e.get("preds")), e.get("predStatus"))


def nontrivial(e):
    if e.get("status") != "ok":
        return False
    ys = sorted(set(e["y"]))
    if len(ys) < 2:
        return False
    return ys != list(range(len(ys))) or (e["variant"] != "gaussian" and e["aNum"] != e["aDen"]) or e["hasPriors"]


def tup(e):
    return vlib.digest([e["variant"], e["X"], e["y"], e["aNum"], e["aDen"], e["hasThr"], e["thr2"], e["priorsNum"], e["priorsDen"], e["e"], e.get("ecol"), e.get("backend")])


def validate(ctx, name, events, must_hit=()):
    hits = {}
    for c in range(0, len(events), CHUNK):
        part = events[c:c + CHUNK]
        f = ctx.path("c11-%s-%d.ndjson" % (name, c // CHUNK))
        vlib.write_ndjson(f, part)
        v, bads = ctx.tlc_trace("bayes/NaiveBayesTrace.tla", "bayes/NaiveBayesTrace.cfg", f, timeout=1500)
        for k, n in v.get("hits", {}).items():
            hits[k] = hits.get(k, 0) + n
        for (l, _run, _ev, clause) in bads:
            e = part[l - 1]
            ctx.report(key_of(e, clause), what_of(e, clause), [e])
    for h in must_hit:
        # vacuity is an error of a *passing* run; a run that already found violations reports those
        if hits.get(h, 0) == 0 and not ctx.violations and not ctx.known_hits:
            raise vlib.ToolError("vacuous trace run: %s never exercised in %s" % (h, name))
    return hits


def run(ctx):
    ctx.build()
    t = ctx.tier
    _, prints = ctx.tlc_mc("bayes/NaiveBayesMC.tla", "bayes/NaiveBayesMC_%s.cfg" % t,
                           must_cover=("Index", "Count", "Predict"), timeout=1700, keep_prints=True)
    rep = [json.loads(s) for (tag, s) in prints if tag == "REPLAY"]
    if not rep:
        raise vlib.ToolError("design model printed no REPLAY lines")
    if ctx.thorough and len(rep) > 30000:
        rep = rep[::(len(rep) // 30000 + 1)]
    repf = ctx.path("c11-replay-in.ndjson")
    vlib.write_ndjson(repf, rep)
    all_events, all_hits = [], {}

    def add(name, f, must):
        ev = vlib.read_ndjson(f)
        hits = validate(ctx, name, ev, must_hit=must)
        for k, n in hits.items():
            all_hits[k] = all_hits.get(k, 0) + n
        all_events.extend(ev)
        return ev

    f = ctx.path("c11-model.ndjson")
    ctx.harness("replay-spec", f, repf)
    ev = add("model", f, ("Model", "MapOk", "gaussian", "multinomial", "bernoulli", "categorical"))
    if len(ev) != len(rep):
        raise vlib.ToolError("replay-spec returned %d events for %d inputs" % (len(ev), len(rep)))
    common = ("gaussian", "multinomial", "bernoulli", "categorical", "AlphaNot1", "LabelsNotZeroBased", "MapOk")
    for mode, must in (("small", common + ("Binarized", "EmptyClass")),
                       ("random", common + ("UserPriors", "Binarized", "EmptyClass", "Scaled", "ColScaled", "ZeroPrior", "OtherBackend")),
                       ("gauss-shift", ("gaussian", "GaussFamilyMap", "Scaled", "ColScaled", "OtherBackend")),
                       ("gauss-zero-prior", ("gaussian", "ZeroPrior", "ZeroPriorMapOk"))):
        f = ctx.path("c11-%s.ndjson" % mode)
        ctx.harness("gen-" + mode, f)
        add(mode, f, must)
    if all_hits.get("InvalidInput", 0):
        raise vlib.ToolError("%d generated training sets are invalid by the specification's ValidInput" % all_hits["InvalidInput"])
    ctx.drift = all_hits.get("Drift", 0)
    if ctx.drift:
        vlib.log("MODEL-DRIFT property=C11: %d replayed training sets where the real prediction is another maximiser than the model's" % ctx.drift)
    ctx.evaluations = len(all_events)
    ctx.traces = len(all_events)
    nt = set(tup(e) for e in all_events if nontrivial(e))
    pick = lambda pred: next((e for e in all_events if pred(e)), None)  # noqa
    ctx.samples = [s for s in (
        pick(lambda e: e["variant"] == "multinomial" and e["tag"] == "small" and len(e["X"]) == 2 and len(set(e["y"])) == 2 and e["aNum"] != e["aDen"]),
        pick(lambda e: e["variant"] == "categorical" and e["tag"] == "random" and 4 <= len(e["X"]) <= 8 and nontrivial(e)),
        pick(lambda e: e["variant"] == "bernoulli" and e["tag"] == "random" and e["hasThr"] and 4 <= len(e["X"]) <= 8 and e["hasPriors"]),
        pick(lambda e: e["variant"] == "gaussian" and e["tag"] == "gauss-shift" and len(e["X"]) <= 8),
        pick(lambda e: e["tag"] == "model" and e["variant"] == "bernoulli" and len(e["X"]) == 2)) if s is not None]
    ctx.extra["clause_hits"] = all_hits
    ctx.extra["map_queries_decided"] = all_hits.get("MapOk", 0)
    ctx.extra["map_queries_not_decidable"] = all_hits.get("MapSkip", 0)
    ctx.extra["not_covered"] = [
        "Gaussian MAP outside the family where the logarithms cancel (equal class sizes / priors and equal per-feature variances): "
        "needs the Gaussian log-density, no logarithm in TLA+; such queries are counted in map_queries_not_decidable",
        "Gaussian predictions when some class variance is zero (degenerate density; the statement is silent; the library panics "
        "there on an unwrap of partial_cmp(NaN))",
        "accuracy of the reported reals beyond the fixed-point scales 2^-4..2^-16 chosen per event (exact integer counts are exact)",
        "f32; non-integer feature values other than exact power-of-two rescaling (Gaussian); alpha outside {1/100..5}"]
    ctx.assumptions = [
        "features and labels are integers (Gaussian features optionally times 2^e); alpha and user priors are small rationals passed as f64",
        "class priors of the count models are read from the serde dump (no public accessor)",
        "the order in which the model lists its classes is not constrained; statistics are checked in the reported order",
        "a predicted class may be any maximiser; maximality allows a relative 2^-20 for the rounding of the log-sum"]
    return ctx.finish(RULE, len(nt), exhaustive=False,
                      explanation="design model exhaustive for its scope; trace validation exhaustive over the small domain of the rule, "
                                  "sampled (seeded) beyond it")


def replay(ctx, path):
    d = json.load(open(path))
    f = ctx.path("replay-recorded.ndjson")
    vlib.write_ndjson(f, d["events"])
    v, bads = ctx.tlc_trace("bayes/NaiveBayesTrace.tla", "bayes/NaiveBayesTrace.cfg", f, tag="trace-replay-recorded")
    for b in bads:
        print("REPLAY-BAD recorded", b)
    ctx.build()
    g = ctx.path("replay-rerun.ndjson")
    ctx.harness("rerun", g, f)
    v2, bads2 = ctx.tlc_trace("bayes/NaiveBayesTrace.tla", "bayes/NaiveBayesTrace.cfg", g, tag="trace-replay-rerun")
    for b in bads2:
        print("REPLAY-BAD re-executed", b)
    if bads2:
        print("VIOLATION property=C11 replay=%s" % path)
    return 1 if bads2 else 0
