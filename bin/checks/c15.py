"""C15 — evaluation metrics equal their textbook definitions.  DESIGN.md §3 C15.

1. TLC model-checks the algebra of Metrics.tla on all small inputs (MetricsMC) and the design
   model of the rank-sum AUC algorithm against the pair-counting definition, for every order
   the unstable sort may leave tied scores in (AucModel).
2. spec -> impl: every (label, score) input AucModel enumerated is replayed through the real
   roc_auc_score on f64 and f32 together with the model's rational.
3. impl -> spec: those events, exhaustive small domains enumerated by the harness (binary
   pairs, integer target pairs, labelling pairs incl. swap and relabelling) and seeded random
   larger inputs are validated by TLC against MetricsTrace.tla (exact rationals, fixed point).
"""
import json
import time

import vlib
from checks import sortlib

LEVEL = "model_checking"

RULE = ("accuracy/precision/recall/F-beta(1/2,1,2) on all pairs of binary vectors of length <=5/6; MSE/MAE/R2 on integer "
        "target pairs over -2..2 (length <=2/3 all, 3/4 sampled); ROC-AUC on every (label, score in 0..2) vector of length "
        "<=4/6 enumerated by TLC; homogeneity/completeness/V on all labelling pairs over 3 labels of length <=4/5 each with "
        "swap and injective relabelling; plus seeded random inputs of length <=200 (class balances down to a single "
        "positive/negative, tied/constant/continuous scores, scores k*2^e (e=-70..40) and neighbouring floats 2^e+k ulps, targets (a/U+off)*2^e incl. the offset family off=2^30,1e9 (f64) / 2^15,5e4 (f32), 1..8(16) clusters with arbitrary labels, "
        "product/identical/dyadic layouts, length mismatches), a length ladder 255..1024 around the multiples of 256 for every metric, median-of-three-killer score orders of 72..400 distinct scores, owned ndarray vectors with negative stride, and quick_argsort vectors. An evaluation is non-trivial "
        "when it is an AUC call with tied, rescaled or neighbouring-float scores, or a binary metric with a single positive or negative, or a regression "
        "call with non-integer, rescaled or offset targets, or a clustering call with a single-class labelling or a mixed dyadic "
        "table or an exactly independent pair; distinct = distinct (metric, type, a, b, beta, U, e) digests")

KEY_SINGLE_CLASS = "hcv: labels_true has a single class -> homogeneity is not finite"
KEY_SINGLE_CLUSTER = "hcv: labels_pred has a single cluster -> completeness is not finite"

TRACE_SPEC = ("metrics/MetricsTrace.tla", "metrics/MetricsTrace.cfg")
MUST_HIT = ("accuracy", "precision", "recall", "fbeta", "auc", "mse", "mae", "r2", "LengthMismatch", "Unconstrained",
            "AucTies", "AucConstant", "SinglePosOrNeg", "Scaled", "Offset", "AucScaled", "AucNeighbours", "AucCloserThanEps", "R2ScaledFar", "AucKiller", "ArgSortKiller", "LengthLadder", "BlockMultiple", "HcvLadder", "NdStrided", "HcvNdStrided", "Nalgebra", "AucExtreme", "LengthMismatchBackEnd", "LengthMismatchOneVsN", "Expect", "HCV", "HcvSingleClass", "HcvPure", "HcvMixed",
            "HcvDyadic", "HcvDyadicMixed", "HcvIndependent", "HcvIdentical", "ArgSort", "ArgSortLong")


def build(ctx):
    """ctx.build(), retried: a crate directory a colleague is just creating makes cargo refuse
    the whole workspace for a moment; that says nothing about the code under test."""
    for attempt in range(8):
        try:
            return ctx.build()
        except vlib.ToolError:
            if attempt == 7:
                raise
            time.sleep(15)


def key_of(e, clause):
    if clause == "HomogeneityOne@single-class:nonfinite":
        return KEY_SINGLE_CLASS
    if clause == "CompletenessOne@single-cluster:nonfinite":
        return KEY_SINGLE_CLUSTER
    if e["ev"] == "Metric":
        n = len(e["a"])
        extra = ""
        if e["name"] == "auc":
            extra = " ties=%s pos=%d scores=%s" % (len(set(e["b"])) < len(e["b"]), sum(1 for v in e["a"] if v == 1),
                                                    e.get("fam", "plain") + ("" if e.get("fam", "plain") == "plain" else " 2^%d" % e["e"]))
        elif e["name"] in ("precision", "recall", "fbeta"):
            extra = " pos=%d predpos=%d beta=%d/%d" % (sum(e["a"]), sum(e["b"]), e["b1"], e["b2"])
        elif e["name"] in ("mse", "mae", "r2"):
            extra = " U=%d e=%d offset=%s" % (e["U"], e["e"], "0" if e.get("off", 0) == 0 else "2^%d..2^%d" % (
                abs(e["off"]).bit_length() - 1, abs(e["off"]).bit_length()))
        return "metric %s: %s n=%d/%d%s" % (clause, e["ty"], n, len(e["b"]), extra)
    if e["ev"] == "HCV":
        return "hcv %s: %s n=%d classes=%d clusters=%d" % (clause, e["ty"], len(e["a"]), len(set(e["a"])), len(set(e["b"])))
    return "argsort %s: n=%d distinct=%d" % (clause, len(e["x"]), len(set(e["x"])))


def nontrivial(e):
    """measurement only (input classification for the evidence file)"""
    if e["ev"] == "Metric":
        if len(e["a"]) != len(e["b"]) or e["status"] != "ok":
            return False
        if e["name"] == "auc":
            return len(set(e["b"])) < len(e["b"]) or e.get("fam", "plain") != "plain"
        if e["name"] in ("precision", "recall", "fbeta"):
            s = sum(e["a"])
            return len(e["a"]) > 2 and (s == 1 or s == len(e["a"]) - 1)
        if e["name"] in ("mse", "mae", "r2"):
            return e["U"] != 1 or e["e"] != 0 or e.get("off", 0) != 0
        return False
    if e["ev"] == "HCV":
        ka, kb = len(set(e["a"])), len(set(e["b"]))
        return ka == 1 or kb == 1 or (ka > 1 and kb > 1 and len(e["a"]) in (4, 8, 16, 32, 64))
    return False


def run(ctx):
    build(ctx)
    t = ctx.tier
    ctx.tlc_mc("metrics/MetricsMC.tla", "metrics/MetricsMC_%s.cfg" % t, must_cover=("Init",), timeout=2400)
    _, prints = ctx.tlc_mc("metrics/AucModel.tla", "metrics/AucModel_%s.cfg" % t, keep_prints=True, timeout=2400,
                           must_cover=("Count", "Sort", "RankSingle", "RankTie", "RankEnd", "Sum"))
    replay_in = [json.loads(p[1]) for p in prints if p[0] == "REPLAY"]
    if len(replay_in) < 1000:
        raise vlib.ToolError("too few REPLAY lines parsed from AucModel (%d)" % len(replay_in))
    fin = ctx.path("c15-replay-in.ndjson")
    vlib.write_ndjson(fin, replay_in)
    files = [ctx.path("c15-replay.ndjson"), ctx.path("c15-exhaustive.ndjson"), ctx.path("c15-random.ndjson")]
    p1 = ctx.harness("replay-spec", fin, files[0])
    p2 = ctx.harness("gen-exhaustive", files[1])
    p3 = ctx.harness("gen-random", files[2])
    skipped = sum(int(p.stdout.strip().split("skipped_out_of_range=")[1]) for p in (p1, p2, p3))
    events = []
    for f in files:
        events += vlib.read_ndjson(f)
    allf = ctx.path("c15-all.ndjson")
    vlib.write_ndjson(allf, events)
    v, bads = ctx.tlc_trace(TRACE_SPEC[0], TRACE_SPEC[1], allf, must_hit=MUST_HIT, timeout=3000)
    hits = v.get("hits", {})
    ctx.drift = int(hits.get("Drift", 0))
    # the index sort that ranks the scores inside roc_auc_score (quick_sort.rs is a C15 anchor):
    # transcribed TLA+ model + IsArgSort on recorded real calls, see checks/sortlib.py
    nsort = sortlib.run_sort(ctx, " (ranking used by ROC-AUC)")
    if hits.get("Expect", 0) != 2 * len(replay_in):
        raise vlib.ToolError("not every replayed AucModel input came back")
    for (l, runid, ev, clause) in bads:
        e = events[l - 1]
        k = key_of(e, clause)
        ctx.report(k, "%s fails on %s" % (clause, k), [e])
    nt = set()
    for e in events:
        if nontrivial(e):
            nt.add(vlib.digest([e.get("name", e["ev"]), e.get("ty"), e.get("a", e.get("x")), e.get("b"), e.get("b1"), e.get("b2"),
                                e.get("U"), e.get("e"), e.get("off"), e.get("fam")]))
    ctx.evaluations = len(events)
    ctx.traces = len(events) + nsort
    ctx.extra["skipped_out_of_range"] = skipped
    ctx.extra["unconstrained_events"] = hits.get("Unconstrained", 0)
    ctx.extra["events_in_known_defect_class"] = sum(1 for b in bads if "@" in b[3])
    ctx.extra["not_covered"] = [
        "the exact value of homogeneity/completeness/V outside the dyadic family (no logarithm in TLA+): only range, "
        "the =1 / <1 characterisation, swap, relabelling invariance and the harmonic-mean identity are decided there",
        "numerical accuracy finer than 2^-S (S<=16; 2^-9 relative for R^2)",
        "precision with no predicted positive, recall/AUC with a missing class, R^2 with constant truth, F-beta without a "
        "true positive: the statement is silent, the events are counted as Unconstrained",
        "targets whose exact rational needs more than 32 bits at S>=6 are skipped by the harness and counted"]
    s = [e for e in events if e["ev"] == "Metric" and e["name"] == "auc" and e["hasExpect"] and len(e["a"]) == 4][:1]
    s += [e for e in events if e["ev"] == "Metric" and e["name"] == "r2" and e["e"] != 0 and len(e["a"]) <= 8][:1]
    s += [e for e in events if e["ev"] == "HCV" and len(set(e["a"])) == 1 and len(e["a"]) == 4 and len(set(e["b"])) == 3][:1]
    s += [e for e in events if e["ev"] == "Metric" and e["status"] == "panic"][:1]
    ctx.samples = s
    ctx.assumptions = ["labels and targets are integers (targets in units 1/U, U in {1,2,4}, fed as (a/U + off) * 2^e exactly; MSE/MAE/R2 are "
                       "shift invariant, so the exact rationals are evaluated on the small integers)",
                       "AUC scores enter the specification as dense ranks (order and ties preserved)",
                       "outputs are compared at round(v*2^S); S is chosen by the harness from the input magnitudes only",
                       "clustering inputs have <=1024 items and <=8 classes (<=200 items when up to 16 clusters): margin of the <1 clause"]
    return ctx.finish(RULE, len(nt), exhaustive=True,
                      explanation="exhaustive refers to the enumerated small domains named in the rule (the sampled length-3/4 "
                                  "target pairs and the random part are not exhaustive)")


def replay(ctx, path):
    d = json.load(open(path))
    build(ctx)
    fin = ctx.path("replay-in.ndjson")
    fout = ctx.path("replay-out.ndjson")
    vlib.write_ndjson(fin, d["events"])
    ctx.harness("replay-file", fin, fout)          # re-execute the recorded inputs on the current tree
    v, bads = ctx.tlc_trace(TRACE_SPEC[0], TRACE_SPEC[1], fout)
    for b in bads:
        print("REPLAY-BAD", b)
    return 1 if bads else 0
