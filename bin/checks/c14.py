"""C14 — PCA and truncated SVD yield orthonormal, variance-ordered, optimal projections.
DESIGN.md §3 (numerical kernels).

Contract specification spec/decomp/Pca.tla (orthonormality — in the sigma^2 metric for the correlation mode —,
affine-map identity against the exact centred integer data, zero means, decorrelation, ordering, eigen-equation of
the exact covariance, captured variance of the k-fit = top-k eigenvalue sum of the validated full fit, stacking;
truncated SVD: orthonormal, linear map, Frobenius norm = top-k squared singular values derived in the spec from a
validated singular basis, k = p rejected), design model PcaMC.tla (3-4-5-rotated data with rational principal axes),
trace validation PcaTrace.tla of events recorded from the real PCA / SVD."""
import json
import vlib

LEVEL = "exploration"

RULE = ("seeded random integer data matrices (families: latent-factor correlated columns with different scales and column "
        "means up to 1000 -- and, for every other data set, an additional exactly representable per-column offset of "
        "2^20..2^30 x {1,3,5,7} fed to the library only (the spec judges the small integers: PCA is shift invariant) --, "
        "and, for every fourth data set, columns multiplied by exact powers of two 2^-40, 2^-30, 2^30 (per column in correlation "
        "mode, one common exponent in covariance mode; outputs descaled exactly) --, independent columns, exactly rank-deficient, repeated eigenvalues (Walsh patterns)), 2<=m<=12 "
        "(thorough <=40), 1<=p<=4 (thorough <=8), both m>p (SVD path) and m<=p (covariance/EVD path); every 1<=k<=p in "
        "covariance and correlation mode; truncated SVD for every k<p and the rejected k=p; three query rows transformed "
        "stacked and separately; graded family (covariance mode and truncated SVD, p in 3..4: columns times 2^0 / 2^-300 / 2^-600, judged with the graded "
        "columns as exact zeros); one data set in eight through the api traits UnsupervisedEstimator::fit / Transformer::transform; "
        "size ladder m in {63,64,65,255,256,257,1023,1024,1025} (thorough also 127..129, 511..513) of three-valued columns. "
        "Non-trivial = p>=2 and the data are not already axis-aligned (the projection has an "
        "off-diagonal entry above 2^-4), or a rejected k=p; distinct = distinct (X, mode, k)")


def nontrivial(e):
    if e["ev"] == "Tsvd" and e["k"] >= e["p"]:
        return True
    if e["p"] < 2 or e["status"] != "ok" or not e["q"]:
        return False
    o = e["q"][0]
    pm = o["P"] if e["ev"] == "Pca" else o["Cm"]
    s = o["S"]
    big = [[abs(v) > (1 << (s - 4)) for v in row] for row in pm]
    return any(sum(1 for r in big if r[a]) >= 2 for a in range(len(pm[0])))


def key_of(e, clause):
    shape = "m>p" if e["m"] > e["p"] else "m<=p"
    if e["ev"] == "Pca":
        return "pca %s %s %s k%sp fam=%s%s" % (e["mode"], clause, shape, "=" if e["k"] == e["p"] else "<", e["fam"].replace("/offset", "").replace("/colscale", "").replace("/graded", ""),
                                               " offsets 2^20..2^30" if any(e.get("off", [])) else
                                               " columns scaled by 2^-40..2^30" if any(e.get("cexp", [])) else
                                               " columns graded 2^0/2^-300/2^-600" if any(e.get("gexp", [])) else "")
    return "tsvd %s %s k%sp fam=%s%s" % (clause, shape, "=" if e["k"] == e["p"] else "<", e["fam"].replace("/graded", ""),
                                         " columns graded 2^0/2^-300/2^-600" if any(e.get("gexp", [])) else "")


def run(ctx):
    ctx.build()
    ctx.tlc_mc("decomp/PcaMC.tla", "decomp/PcaMC_%s.cfg" % ctx.tier, must_cover=("FitPcaFull", "FitPcaOne", "FitTsvdOne"), timeout=1500)
    f = ctx.path("c14.ndjson")
    p = ctx.harness("gen", f)
    events = vlib.read_ndjson(f)
    v, bads = ctx.tlc_trace("decomp/PcaTrace.tla", "decomp/PcaTrace.cfg", f,
                            must_hit=("Pca_cov_svd_k", "Pca_cov_svd_full", "Pca_cov_evd_k", "Pca_cov_evd_full",
                                      "Pca_corr_k", "Pca_corr_full", "Tsvd", "TsvdReject",
                                      "Offset_cov_svd", "Offset_cov_evd", "Offset_corr",
                                      "Scaled_cov_svd", "Scaled_cov_evd", "Scaled_corr_tall", "Scaled_corr_wide",
                                      "Entry_api", "Rows_63_257", "Rows_1023_1025",
                                      "Graded_cov_svd", "Graded_cov_evd", "Graded_tsvd"))
    hits = v.get("hits", {})
    for (l, runid, ev, clause) in bads:
        e = events[l - 1]
        ctx.report(key_of(e, clause), "%s fails on a %dx%d %s with k=%d (run %s)" % (clause, e["m"], e["p"], ev, e["k"], runid), [e])
    ctx.evaluations = len(events)
    ctx.traces = len(events)
    nt = set()
    for e in events:
        if nontrivial(e):
            nt.add(vlib.digest([e["ev"], e["X"], e.get("mode"), e["k"]]))
    ok = [e for e in events if e["status"] == "ok"]
    ctx.samples = [ok[0], [e for e in ok if e["ev"] == "Tsvd"][0], max(ok, key=lambda e: e["m"] * e["p"])]
    ctx.extra["harness_counts"] = p.stdout.strip()
    ctx.extra["out_of_range_events"] = hits.get("OutOfRange", 0)
    ctx.extra["unconstrained_events"] = hits.get("Unconstrained", 0)
    ctx.extra["not_covered"] = ["accuracy finer than 2^-S (S in {10, 8, 6, 4}, the finest scale whose squared column norms fit 32 bits)",
                                "m > 40, p > 8, centred magnitudes above ~16 (32-bit TLC arithmetic); f32",
                                "the eigen-equation is evaluated explicitly in covariance mode only (correlation mode: implied by the "
                                "sigma^2-orthonormality, the affine map and decorrelation of the full fit)",
                                "correlation mode with a constant column (standardisation undefined: unconstrained)"]
    ctx.assumptions = ["inputs are integer valued; population normalisation on both sides (every clause is homogeneous in it)",
                       "the 'sum of the k largest eigenvalues' is taken from the full fit (k = p) of the same data, which is itself "
                       "validated as a complete orthonormal eigen-decomposition in its own event",
                       "truncated SVD: singular values are derived in the spec from the right singular vectors of linalg's SVD of X"]
    return ctx.finish(RULE, len(nt), exhaustive=False)


def replay(ctx, path):
    d = json.load(open(path))
    ctx.build()
    f0 = ctx.path("replay-recorded.ndjson")
    vlib.write_ndjson(f0, d["events"])
    f1 = ctx.path("replay-rerun.ndjson")
    ctx.harness("replay-file", f0, f1)
    rc = 0
    for name, f in (("recorded", f0), ("re-executed", f1)):
        v, bads = ctx.tlc_trace("decomp/PcaTrace.tla", "decomp/PcaTrace.cfg", f, tag="replay-" + name)
        for b in bads:
            print("REPLAY-BAD (%s)" % name, b)
            rc = 1
    return rc
