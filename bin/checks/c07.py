"""C07 — least-squares and ridge regression return the exact minimiser.  DESIGN.md §3 (numerical kernels).

Contract specification spec/linear/LeastSquares.tla (first-order conditions as fixed-point polynomial
identities, tolerance derived in the spec), design model LeastSquaresMC.tla (closed-form one-regressor
solver: the contract accepts the exact minimiser and rejects a 16-unit perturbation), trace validation
LeastSquaresTrace.tla of events recorded from the real LinearRegression / RidgeRegression."""
import json
import vlib

LEVEL = "exploration"

RULE = ("seeded random integer regression problems (families dense / large column means / near-collinear / +-1 / "
        "sparse with zero rows; n<=12 (thorough: <=24), p<=4 (thorough: <=6); targets random, linear+noise, exactly "
        "linear, large mean; exact power-of-two column and target rescaling 2^-7..2^10; f64 and f32), each fitted with "
        "both solvers, the parameter object built by the struct literal or by one of the 3! orders of the with_* builder calls (rotating) (one f64 problem in eight also through the ndarray bindings with column-major X and negatively strided y, one in eight through the api traits SupervisedEstimator::fit / Predictor::predict; size ladder "
        "n in {63,64,65,255,256,257,1023,1024,1025} on +-1 data) (OLS: QR, SVD; ridge: Cholesky, SVD; alpha in 2^-10..100; normalisation on/off) and judged by "
        "TLC. An event is non-trivial when p >= 2 and the fitted residual is not identically zero (some prediction "
        "differs from its target by more than two fixed-point units); distinct = distinct (X, y, alpha, normalize, prec)")


def nontrivial(e):
    if e["p"] < 2:
        return False
    s = 1 << e["S"]
    for f in e["fits"]:
        if f["status"] == "ok" and f["fin"] and any(abs(yh - y * s) > 2 for yh, y in zip(f["Yhat"], e["y"])):
            return True
    return False


def key_of(e, clause):
    k = "%s %s %s fam=%s" % (e["ev"].lower(), e["prec"], clause, e.get("fam", "?"))
    if e["ev"] == "Ridge":
        k += " normalize=%s" % e["normalize"]
    if any(e.get("cexp", [])) or e.get("yexp", 0):
        k += " rescaled"
    for f in e["fits"]:
        if clause.endswith("_" + f["solver"]) and f.get("built", "literal") != "literal":
            k += " [parameters built by with_* calls in the order %s]" % f["built"]
    return k


def run(ctx):
    ctx.build()
    ctx.tlc_mc("linear/LeastSquaresMC.tla", "linear/LeastSquaresMC_%s.cfg" % ctx.tier,
               must_cover=("SolveOls", "SolveRidgeRaw", "SolveRidgeStd"), timeout=1200)
    f = ctx.path("c07.ndjson")
    p = ctx.harness("gen", f)
    events = vlib.read_ndjson(f)
    v, bads = ctx.tlc_trace("linear/LeastSquaresTrace.tla", "linear/LeastSquaresTrace.cfg", f,
                            must_hit=("Ols_f64", "Ols_f32", "RidgeStd_f64", "RidgeRaw_f64", "RidgeRaw_f32", "Backend_ndarray", "Backend_api"))
    for (l, runid, ev, clause) in bads:
        e = events[l - 1]
        ctx.report(key_of(e, clause), "%s fails on a %dx%d %s problem (run %s)" % (clause, e["n"], e["p"], e["ev"], runid), [e])
    ctx.evaluations = len(events)
    ctx.traces = sum(len(e["fits"]) for e in events)
    nt = set()
    for e in events:
        if nontrivial(e):
            nt.add(vlib.digest([e["X"], e["y"], e.get("aN"), e.get("aE"), e.get("normalize"), e["prec"], e["cexp"], e["yexp"]]))
    big = max(events, key=lambda e: e["n"] * e["p"])
    ctx.samples = [events[0], events[len(events) // 2], big]
    ctx.extra["harness_counts"] = p.stdout.strip()
    ctx.extra["not_covered"] = ["accuracy finer than 2^-S (S = 12..4, chosen per event) relative to the data",
                                "n > 24, p > 6 and |entries| > ~150 (32-bit TLC arithmetic)",
                                "f32 on rescaled / ill-conditioned designs; solver agreement in f32",
                                "condition numbers beyond those of the integer families (about 1e4)"]
    ctx.assumptions = ["inputs are integer valued; power-of-two rescalings are undone exactly by the harness before quantisation",
                       "floating-point backward error allowance: 1 unit (f64), 2^-14 of the summed magnitudes (f32)",
                       "solver agreement (two fixed-point units) is demanded for f64 only"]
    return ctx.finish(RULE, len(nt), exhaustive=False)


def replay(ctx, path):
    d = json.load(open(path))
    ctx.build()
    f0 = ctx.path("replay-recorded.ndjson")
    vlib.write_ndjson(f0, d["events"])
    f1 = ctx.path("replay-rerun.ndjson")
    ctx.harness("replay-file", f0, f1)
    rc = 0
    for name, f in (("recorded", f0), ("re-executed", f1)):
        v, bads = ctx.tlc_trace("linear/LeastSquaresTrace.tla", "linear/LeastSquaresTrace.cfg", f, tag="replay-" + name)
        for b in bads:
            print("REPLAY-BAD (%s)" % name, b)
            rc = 1
    return rc
