"""QuickArgSort (src/algorithm/sort/quick_sort.rs) — shared by C05 (per-feature sample order
in tree growth) and C15 (ranking of scores in ROC-AUC), both of which anchor that file.

run_sort(ctx) adds to the caller's context:
  * TLC model checking of spec/sort/QuickSort.tla (the routine transcribed: explicit stack,
    insertion sort below 8 elements, median-of-three partition with sentinel scans) against
    IsArgSort, exhaustively for all vectors of length <= 9 (quick) / 11 (thorough) over 3 values;
  * spec -> impl: the model's result for every vector of length <= 9 is compared with the real
    routine's (a difference that still satisfies IsArgSort is MODEL-DRIFT, not a violation);
  * impl -> spec: IsArgSort evaluated by TLC on every recorded real call (the exhaustive
    domain plus seeded random vectors up to 600 long: heavy ties, sorted, reversed, constant).
Returns the number of real calls validated."""
import json
import vlib


def run_sort(ctx, report_pid_note=""):
    ctx.build(crate="xsort")
    ctx.tlc_mc("sort/QuickSort.tla", "sort/QuickSortMC_%s.cfg" % ctx.tier, must_cover=("Small", "Large"), workers=6,
               tag="mc-quicksort")
    run, prints = ctx.tlc_mc("sort/QuickSort.tla", "sort/QuickSortMC_replay.cfg", must_cover=("Small", "Large"),
                             workers=4, tag="mc-quicksort-replay", keep_prints=True)
    expect = {}
    for p in prints:
        if p[0] == "REPLAY":
            d = json.loads(p[1])
            expect[tuple(d["v"])] = d["idx"]
    if len(expect) < 29000:
        raise vlib.ToolError("QuickSort replay: only %d model behaviours parsed" % len(expect))
    fe = ctx.path("sort-exhaustive.ndjson")
    fr = ctx.path("sort-random.ndjson")
    ctx.harness("gen-exhaustive", fe, crate="xsort")
    ctx.harness("gen-random", fr, crate="xsort")
    ev = vlib.read_ndjson(fe) + vlib.read_ndjson(fr)
    fa = ctx.path("sort-all.ndjson")
    vlib.write_ndjson(fa, ev)
    v, bads = ctx.tlc_trace("sort/QuickSortTrace.tla", "sort/QuickSortTrace.cfg", fa, must_hit=("small", "large", "ties"),
                            tag="trace-quicksort")
    for (l, runid, evn, clause) in bads:
        e = ev[l - 1]
        ctx.report("argsort n=%d status=%s" % (len(e["v"]), e["status"]),
                   "quick_argsort result is not a sorting permutation of its input (n=%d)%s" % (len(e["v"]), report_pid_note), [e])
    drift = 0
    compared = 0
    for e in ev:
        k = tuple(e["v"])
        if e["status"] == "ok" and k in expect and e["kind"] == "mut":
            compared += 1
            if expect[k] != e["idx"]:
                drift += 1
    if compared < 29000:
        raise vlib.ToolError("QuickSort replay: only %d behaviours compared with the real code" % compared)
    if drift:
        vlib.log("MODEL-DRIFT: quick_argsort differs from QuickSort.tla on %d of %d inputs (results still checked by IsArgSort)" % (drift, compared))
    ctx.drift += drift
    ctx.extra["quicksort"] = {"model_behaviours_compared_with_impl": compared, "drift": drift, "real_calls_validated": len(ev)}
    return len(ev)
