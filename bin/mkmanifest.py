#!/usr/bin/env python3
"""Regenerates /verif/MANIFEST.json from the table below (one entry per claimed property).
Properties of properties.jsonl that have no entry here are listed under not_applicable."""
import json
import os

VERIF = os.path.dirname(os.path.dirname(os.path.abspath(__file__)))

TECH_MC = "TLA+ model checking (TLC) of implementation-shaped design models + TLC trace validation of events recorded from the real code"
TECH_B = "TLA+ contract specification (fixed-point algebraic identities, tolerance derived in the spec) evaluated by TLC on every recorded call (trace validation) + TLC model checking of integer design models"

E = {}

E["C16"] = dict(
    level="model_checking", ref="DESIGN.md §3 C16",
    text="TLC model-checks an implementation-shaped model of KFold (all 2<=k<=n<=32/64, all permutations for n<=5/7) against IsKFoldSplit and explores every event sequence the CrossVal protocol guards admit (n<=5/6) against NoLeak; a TLAPS lemma proves the fold-size arithmetic for all n,k; the same predicates/guards then validate events recorded from the real KFold::split, train_test_split (f32 arithmetic modelled exactly) and cross_validate/cross_val_predict driven by an instrumented estimator.",
    note="Trusted: TLC, tlapm back ends, the Json module, the harness' instrumented estimator (row id in column 0, prediction = fit*1000+id). Shuffled splits are sampled, not enumerated.",
    technique="TLA+ model checking (TLC) of KFold/CrossVal models + TLAPS lemma + TLC trace validation of recorded real executions")

E["C18"] = dict(
    level="model_checking", ref="DESIGN.md §3 C18",
    text="TLC model-checks an implementation-shaped model of OneHotEncoder fit + find_new_idxs + transform for every layout of <=5/6 columns (plain, or 1..3 categories, or a non-integer column; three index orders) against IsOneHot/Encode, and checks all CategoryMapper histories <=4/6 items over 4 symbols. Every model input is replayed through the real code (f64/f32, u16/String), and those plus seeded random layouts and error cases are validated by TLC with the same predicates.",
    note="Trusted: TLC and its Json module, the doubled-integer projection of matrix entries, and the 's<n>' string mapping. The random part is sampled. Not covered: values within the crate's 0.001 margin of an integer.",
    technique="TLA+ model checking (TLC) of OneHotModel/CategoryMapperMC, spec->impl replay, and TLC trace validation of recorded executions")

E["C15"] = dict(
    level="model_checking", ref="DESIGN.md §3 C15",
    text="Metrics are exact rationals in Metrics.tla. TLC model-checks their algebra on all small inputs, a design model of the rank-sum AUC (every tie order) against pair counting, and a transcription of the index sort (QuickSort.tla) against IsArgSort. All enumerated AUC inputs are replayed, and exhaustive small domains plus random inputs up to length 200 (f64/f32, rescaled targets, dyadic/independent/identical clusterings, argsort) are validated at fixed point 2^-S. Entropy-valued scores are decided structurally and exactly on the dyadic family only.",
    note="Trusted: TLC, dense-rank and fixed-point projections, power-of-two rescaling. Fine numerical accuracy and homogeneity/completeness/V values outside the dyadic family are not covered; zero-denominator inputs are unconstrained.",
    technique="TLC model checking of MetricsMC/AucModel/QuickSort plus TLC trace validation of recorded metric calls")

E["C19"] = dict(
    level="exploration", ref="DESIGN.md §3 C19",
    text="Exploration: for every serialisable public type, seeded random objects are taken through a recorded Built->Ser->De->Eq history in bincode and JSON; a TLA+ history machine (RoundTrip.tla, model-checked against an abstract implementation with 10 injected fault classes) decides each event: no serialisation failure; bit-identical outputs through bincode; outputs within one 2^-16 unit and exact labels through JSON; equality contract self / restored / refit / !=-other. DenseMatrix shapes 1..5x1..5 are enumerated.",
    note="Outputs are observed on one fresh query matrix per object (sampled, not proved). Types without PartialEq are checked for the observation clauses only. The != clause is demanded only when rows (and targets) differ and the models are observably different.",
    technique="TLA+ history state machine whose verdict operators are model-checked by TLC against an abstract implementation and evaluated by TLC on histories recorded from the real serde impls (trace validation)")

E["C17"] = dict(
    level="model_checking", ref="DESIGN.md §3 C17",
    text="TLC model-checks implementation-shaped models of the coordinate loop (Manhattan/Euclidean/Minkowski p<=4/Hamming, all pairs len<=3 and triples len<=2 over {-2..2}, incl. length mismatches) and of the Mahalanobis quadratic form (all SPD integer 2x2 with entries<=4, a 3x3 family) against the closed-form and metric-axiom predicates of Distances.tla; the same predicates validate ~73k/810k recorded events of the real code (f64+f32, p=1..8, lengths to 30, 2^+-60 rescaling, data-built covariances) and every input TLC enumerated.",
    note="Exact for f64 power sums; f32 and LU-inverse allowances derived in the spec; symmetry bit-for-bit. Not covered: fine accuracy, extreme-magnitude overflow, Mahalanobis order>3.",
    technique=TECH_MC + ", both binding directions")

E["C11"] = dict(
    level="model_checking", ref="DESIGN.md §3 C11",
    text="TLC model-checks a fit/predict state machine (all four variants, every training set n<=2, p<=2 over {0,1,2} quick / n<=4 thorough, labels {-3,2,7}) against NBVerdict (exact sufficient statistics, smoothed frequencies for rational alpha, exact arbitrary-precision MAP comparison); the same predicate validates 17k/66k recorded fits of the real estimators (2..120 rows, 1..8 features, arbitrary labels, alpha 1/100..5, user priors, empty categorical classes) incl. the model-enumerated sets.",
    note="Gaussian MAP decided only on the equal-size/equal-variance family (no logarithm in TLA+); zero-variance predictions unconstrained; f64 only.",
    technique=TECH_MC + ", both binding directions")

E["C12"] = dict(
    level="model_checking", ref="DESIGN.md §3 C12",
    text="Exact TLA+ models of KMeans::fit (Lloyd.tla: k-means++ seeding with every draw nondeterministic, tie resolutions, early stop) and of the BBD-tree build + filtering step (BbdFilter.tla) are checked exhaustively by TLC on small lattices against the property predicates, and the same predicates validate thousands of recorded real fits, predicts and filtering steps (lattice data exactly, with ties; continuous and f32 data at 2^-12 / 2^-8); model terminal states are replayed through the real tree.",
    note="Means of continuous data are checked to 2^-12 and predict on continuous/f32 data to 2^-8 only; random seedings are sampled by repetition and enumerated only in the model.",
    technique="TLA+/TLC: design models with exact rational arithmetic, predicates shared between model invariants and trace validation, spec->impl replay through the real BBD tree, impl->spec validation of recorded events")


def main():
    props = [json.loads(l) for l in open(os.path.join(VERIF, "properties.jsonl"))]
    checks = []
    for p in props:
        pid = p["id"]
        if pid not in E:
            continue
        e = E[pid]
        checks.append({
            "property_id": pid,
            "quick_cmd": "bin/vcheck %s quick" % pid,
            "thorough_cmd": "bin/vcheck %s thorough" % pid,
            "evidence_file": "evidence/%s.json" % pid,
            "replay_cmd_template": "bin/vcheck %s --replay {path}" % pid,
            "engine": "vcheck",
            "level_claimed": {"category": e["level"], "text": e["text"], "design_ref": e["ref"]},
            "level_note": e["note"],
            "technique": e["technique"],
        })
    na = [{"property_id": p["id"], "reason": NA.get(p["id"], "machinery not finished (build in progress, see DESIGN.md §7)")}
          for p in props if p["id"] not in E]
    man = {
        "version": 1,
        "setup_cmd": "cd /verif/harness && CARGO_NET_OFFLINE=true cargo build --release --offline --workspace",
        "hooks": {
            "guard": "--cfg smartcore_verif",
            "enable": "the harness workspace's .cargo/config.toml passes --cfg smartcore_verif in rustflags; only harness builds see it",
            "baseline_off_cmd": "cd /repo && (cargo nextest run --workspace --no-fail-fast --offline || cargo test --workspace --no-fail-fast --offline)",
            "source_commits": HOOK_COMMITS,
            "add_only": True,
        },
        "engines": [{
            "name": "vcheck", "path": "bin/vcheck", "serves_properties": [c["property_id"] for c in checks],
            "kind_free_text": "python driver: a cargo-built Rust harness (one crate per property, rebuilt against /repo's working tree) records events from the real code; TLC model-checks TLA+ design models and validates the recorded events against *Trace.tla specifications; tlapm for one unbounded lemma"}],
        "checks": checks,
        "not_applicable": na,
        "notes": "See DESIGN.md. Exit 2 = tool error / vacuous run, never a violation. Known findings: known_findings/CNN.json (KNOWN-FINDING lines, exit 0).",
    }
    json.dump(man, open(os.path.join(VERIF, "MANIFEST.json"), "w"), indent=1)
    print("MANIFEST.json: %d checks, %d not_applicable" % (len(checks), len(na)))


HOOK_COMMITS = ["a9ae94c"]
NA = {}

if __name__ == "__main__":
    main()
