#!/usr/bin/env python3
"""Regenerates /verif/MANIFEST.json from the table below (one entry per claimed property).
Properties of properties.jsonl that have no entry here are listed under not_applicable."""
import json
import os

VERIF = os.path.dirname(os.path.dirname(os.path.abspath(__file__)))

TECH_MC = "TLA+ model checking (TLC) of implementation-shaped design models + TLC trace validation of events recorded from the real code"
TECH_B = "TLA+ contract specification (fixed-point algebraic identities, tolerance derived in the spec) evaluated by TLC on every recorded call (trace validation) + TLC model checking of integer design models"

E = {}

E["C16"] = dict(
    level="model_checking", ref="DESIGN.md §3 C16",
    text="TLC model-checks an implementation-shaped model of KFold (all 2<=k<=n<=32/64, all permutations for n<=5/7) against IsKFoldSplit and explores every event sequence the CrossVal protocol guards admit (n<=5/6) against NoLeak; a TLAPS lemma proves the fold-size arithmetic for all n,k; the same predicates/guards then validate events recorded from the real KFold::split, train_test_split (f32 arithmetic modelled exactly) and cross_validate/cross_val_predict driven by an instrumented estimator.",
    note="Trusted: TLC, tlapm back ends, the Json module, the harness' instrumented estimator (row id in column 0, prediction = fit*1000+id). Shuffled splits are sampled, not enumerated.",
    technique="TLA+ model checking (TLC) of KFold/CrossVal models + TLAPS lemma + TLC trace validation of recorded real executions")

E["C18"] = dict(
    level="model_checking", ref="DESIGN.md §3 C18",
    text="TLC model-checks an implementation-shaped model of OneHotEncoder fit + find_new_idxs + transform for every layout of <=5/6 columns (plain, or 1..3 categories, or a non-integer column; three index orders) against IsOneHot/Encode, and checks all CategoryMapper histories <=4/6 items over 4 symbols. Every model input is replayed through the real code (f64/f32, u16/String), and those plus seeded random layouts and error cases are validated by TLC with the same predicates.",
    note="Trusted: TLC and its Json module, the doubled-integer projection of matrix entries, and the 's<n>' string mapping. The random part is sampled. Not covered: values within the crate's 0.001 margin of an integer.",
    technique="TLA+ model checking (TLC) of OneHotModel/CategoryMapperMC, spec->impl replay, and TLC trace validation of recorded executions")

E["C15"] = dict(
    level="model_checking", ref="DESIGN.md §3 C15",
    text="Metrics are exact rationals in Metrics.tla. TLC model-checks their algebra on all small inputs, a design model of the rank-sum AUC (every tie order) against pair counting, and a transcription of the index sort (QuickSort.tla) against IsArgSort. All enumerated AUC inputs are replayed, and exhaustive small domains plus random inputs up to length 200 (f64/f32, rescaled targets, dyadic/independent/identical clusterings, argsort) are validated at fixed point 2^-S. Entropy-valued scores are decided structurally and exactly on the dyadic family only.",
    note="Trusted: TLC, dense-rank and fixed-point projections, power-of-two rescaling. Fine numerical accuracy and homogeneity/completeness/V values outside the dyadic family are not covered; zero-denominator inputs are unconstrained.",
    technique="TLC model checking of MetricsMC/AucModel/QuickSort plus TLC trace validation of recorded metric calls")

E["C19"] = dict(
    level="exploration", ref="DESIGN.md §3 C19",
    text="Exploration: for every serialisable public type, seeded random objects are taken through a recorded Built->Ser->De->Eq history in bincode and JSON; a TLA+ history machine (RoundTrip.tla, model-checked against an abstract implementation with 10 injected fault classes) decides each event: no serialisation failure; bit-identical outputs through bincode; outputs within one 2^-16 unit and exact labels through JSON; equality contract self / restored / refit / !=-other. DenseMatrix shapes 1..5x1..5 are enumerated.",
    note="Outputs are observed on one fresh query matrix per object (sampled, not proved). Types without PartialEq are checked for the observation clauses only. The != clause is demanded only when rows (and targets) differ and the models are observably different.",
    technique="TLA+ history state machine whose verdict operators are model-checked by TLC against an abstract implementation and evaluated by TLC on histories recorded from the real serde impls (trace validation)")

E["C17"] = dict(
    level="model_checking", ref="DESIGN.md §3 C17",
    text="TLC model-checks implementation-shaped models of the coordinate loop (Manhattan/Euclidean/Minkowski p<=4/Hamming, all pairs len<=3 and triples len<=2 over {-2..2}, incl. length mismatches) and of the Mahalanobis quadratic form (all SPD integer 2x2 with entries<=4, a 3x3 family) against the closed-form and metric-axiom predicates of Distances.tla; the same predicates validate ~73k/810k recorded events of the real code (f64+f32, p=1..8, lengths to 30, 2^+-60 rescaling, data-built covariances) and every input TLC enumerated.",
    note="Exact for f64 power sums; f32 and LU-inverse allowances derived in the spec; symmetry bit-for-bit. Not covered: fine accuracy, extreme-magnitude overflow, Mahalanobis order>3.",
    technique=TECH_MC + ", both binding directions")

E["C11"] = dict(
    level="model_checking", ref="DESIGN.md §3 C11",
    text="TLC model-checks a fit/predict state machine (all four variants, every training set n<=2, p<=2 over {0,1,2} quick / n<=4 thorough, labels {-3,2,7}) against NBVerdict (exact sufficient statistics, smoothed frequencies for rational alpha, exact arbitrary-precision MAP comparison); the same predicate validates 17k/66k recorded fits of the real estimators (2..120 rows, 1..8 features, arbitrary labels, alpha 1/100..5, user priors, empty categorical classes) incl. the model-enumerated sets.",
    note="Gaussian MAP decided only on the equal-size/equal-variance family (no logarithm in TLA+); zero-variance predictions unconstrained; f64 only.",
    technique=TECH_MC + ", both binding directions")

E["C12"] = dict(
    level="model_checking", ref="DESIGN.md §3 C12",
    text="Exact TLA+ models of KMeans::fit (Lloyd.tla: k-means++ seeding with every draw nondeterministic, tie resolutions, early stop) and of the BBD-tree build + filtering step (BbdFilter.tla) are checked exhaustively by TLC on small lattices against the property predicates, and the same predicates validate thousands of recorded real fits, predicts and filtering steps (lattice data exactly, with ties; continuous and f32 data at 2^-12 / 2^-8); model terminal states are replayed through the real tree.",
    note="Means of continuous data are checked to 2^-12 and predict on continuous/f32 data to 2^-8 only; random seedings are sampled by repetition and enumerated only in the model.",
    technique="TLA+/TLC: design models with exact rational arithmetic, predicates shared between model invariants and trace validation, spec->impl replay through the real BBD tree, impl->spec validation of recorded events")

E["C01"] = dict(
    level="exploration", ref="DESIGN.md §3 C01",
    text="Coarse exploration: every factor, inverse and solve contract of C01 (LU, QR, Cholesky, SVD) is evaluated by TLC on integer-valued matrices of order <= 8 in f64 and f32 (also rescaled by exact powers of two) at about 2^-10 relative to ||A||. Rank, conditioning and definiteness premises are certified exactly inside the TLA+ spec; the Cholesky error clause is decided exactly by principal minors; exact-rational design models of lu_mut and cholesky_mut are model-checked against the same predicates and replayed through the real code.",
    note="Machine-precision accuracy, orders above 8, condition numbers above 2^12 and graded spectra are not decided (TLC has 32-bit integers and no reals).",
    technique=TECH_B)

E["C02"] = dict(
    level="exploration", ref="DESIGN.md §3 C02",
    text="Coarse exploration: symmetric and general eigen-contracts (e == 0, ordering, V'V = I, AV = VD; conjugate pairs bit-exact, trace identities, A v = d v for real eigenvalues) are evaluated by TLC at about 2^-10 on integer matrices of order <= 8 in f64 and f32, across the families listed in the statement; a closed-form 2x2 model checks the predicates and is replayed through the real evd.",
    note="Rounding-level accuracy, n > 8 and strong imbalance are not decided. Inputs on which evd(false) panics (known finding: hqr iteration budget) are not judged beyond the panic.",
    technique=TECH_B)

E["C03"] = dict(
    level="model_checking", ref="DESIGN.md §3 C03/C20",
    text="Every BaseMatrix/BaseVector/stats/high-order operation of DenseMatrix<f64|f32> and Vec<T> is specified once in MatrixADT.tla on the row-major logical view (about 150 operators, shape contracts, the panic class, exact fractions for mean/var/cov/scale) and validated by TLC on recorded op-programs (shapes 1..12, mixed-sign, all-negative, incompatible-shape calls, offsets to 1e8) and on programs drawn from the model-checked register-file state machine (about 60 algebraic laws as invariants); a layout model checks that the transcribed column-major methods refine the ADT.",
    note="Real-valued results are judged at 2^-10 (var/std at 2^-10*spread^2); softmax by range, sum and monotonicity; argmax ties and unique order are unconstrained; exp/pow with non-integer exponents and rand are not covered.",
    technique="TLA+ ADT semantics + laws model-checked by TLC; TLC trace validation of Rust-recorded op-programs; TLC-generated programs replayed on the real types")

E["C04"] = dict(
    level="model_checking", ref="DESIGN.md §3 C04",
    text="Nearest-neighbour results of LinearKNNSearch and CoverTree (find, find_radius, error cases) and k-NN classifier/regressor predictions are judged by TLA+ predicates (IsKnn, IsRadius, PredClassOK, PredRegOK) that TLC evaluates on every call recorded from the real code: exhaustive over all multisets of <=3 (quick) / <=6 (thorough) points of the 3x3 lattice x 13 queries x 4 metrics x every k and radius, plus seeded random data up to 200 points x 6 dimensions. The heap, linear-search and cover-tree design models are model-checked and replayed state by state through the real code.",
    note="Lattice distances are compared through exact integer keys and continuous ones through dense ranks. Distance weighting is checked for Manhattan and Hamming only; Mahalanobis, f32 and more than 200 points are not covered.",
    technique="TLA+ predicates and implementation-shaped design models (HeapSelect, LinearFind, CoverTree) checked by TLC, with bidirectional binding: TLC-enumerated inputs replayed through the real code, ndjson traces validated by KnnTrace.tla")

E["C05"] = dict(
    level="model_checking", ref="DESIGN.md §3 C05",
    text="TLC model-checks an implementation-shaped model of greedy breadth-first tree growth (split sweep, skips, guards, tie-break, depth counter; every tie order of the pre-sort) for every training multiset up to 4/5 rows x criteria x limits, and a model of quick_argsort_mut. The same predicates (routing, leaf content, leaf size, depth, greedy optimality and completeness by exact rational comparison, determinism, 2^j scale invariance) validate events recorded from the real fit/predict of both trees, with every fit repeated and rescaled.",
    note="Trusted: TLC, the Json module, harness projections (exact integers, joint dense ranks, fx16, bit signatures), serde dumps. Optimality is decided only at nodes of <= 10 rows for entropy and <= 64 rows for regression; f32 trees not exercised.",
    technique="TLA+ model checking (TLC) of TreeGrow/TreeArgSort against TreeSpec predicates, plus TLC trace validation of recorded real executions, including replay of model-generated inputs")

E["C06"] = dict(
    level="model_checking", ref="DESIGN.md §3 C06",
    text="TLC model-checks three design models against the predicates of Forest.tla: the vote/mean/OOB aggregation loops (every forest of <=3 trees over the configured rows), both bootstrap samplers (every draw sequence, n<=5/6, 3 classes) and the Fit(key, digest) history machine (all interleavings). Every aggregation terminal state is assembled as a real forest via serde and run through the real predict/predict_oob, and 12k/40k recorded real fits (settings x 2 seeds x 2 fits, interleaved) are validated by the same predicates.",
    note="Trusted: TLC, the Json module, the serde dump as the view of trees[]/samples[], member trees re-queried through the public DecisionTree* predict, a 128-bit FNV digest. Seeds are sampled; regression clauses are decided to 2^-16; f32 is not exercised.",
    technique="TLA+ model checking (TLC) of the ForestAgg/ForestBoot/ForestHist design models, spec->impl replay of every model terminal state through the real aggregation code, and TLC trace validation of recorded real fits")

E["C10"] = dict(
    level="model_checking", ref="DESIGN.md §3 C10",
    text="Model checking of the visiting-order nondeterminism (every tuple of permutations for n<=4/5 is printed by TLC and injected into the real SVC trainer through the cfg-guarded hook) and of abstract design models of both trainers (dual feasibility for every schedule, pair and step); every recorded SVC/SVR fit and kernel evaluation is validated by TLC against fixed-point contracts (box, sum zero, direction by class, support vectors are rows, kernel expansion, label rule, epsilon-insensitive KKT within tol, kernel closed forms/symmetry/PSD necessary conditions).",
    note="Numeric clauses are coarse: 2^-16 for box/sum/KKT, about 2^-10*sum|K| for the expansion. RBF and sigmoid closed forms are pinned by order, functional equations and Taylor enclosures only. PSD is checked by necessary conditions. Schedules for n > 5 and all data and parameters are sampled.",
    technique="TLA+/TLC: SvmSchedule, Lasvm and SvrSmo model-checked exhaustively; SvmContracts and Kernels predicates evaluated by SvmTrace on events recorded from the real code, schedules injected through the cfg-guarded hook")

E["C13"] = dict(
    level="model_checking", ref="DESIGN.md §3 C13",
    text="TLC model-checks the transcribed DBSCAN fit loop (every neighbour-query order for n<=4/5, linear order for all sequences of <=5/7 points on 1-D and <=4/6 on 2-D lattices) and a model of predict against IsDensityClustering / PredictOK plus structural and termination invariants; every model input and seeded random sets of 1..150 points in 1..4 dimensions are run through the real DBSCAN with both back ends (3 metrics, f32/f64, dyadic scales) and validated by TLC with the same predicates, including back-end independence; plus a family of widely spread half-integer 2-D to 4-D sets (deep cover trees with many children per node).",
    note="Exact on integer-lattice x power-of-two data only; non-dyadic continuous coordinates are not covered. Trusted: TLC and the Json module, the harness's integer projection, the serde dump of cluster_labels/num_classes.",
    technique="TLA+ design models (Dbscan.tla, DbscanPredict.tla) model-checked by TLC, spec->impl replay of all model inputs, and TLC trace validation of recorded real executions against DbscanProps.tla")

E["C20"] = dict(
    level="model_checking", ref="DESIGN.md §3 C03/C20",
    text="The op-programs of the MatrixADT state machine are replayed on ndarray::Array2 and nalgebra::DMatrix (and their vector types), including non-row-major operands, validated per back end against MatrixADT and pairwise by BackendAgree.tla; 35 estimators, decompositions and metrics are compared on identical data across the three back ends under a watchdog; MatrixADTLayout.tla model-checks the layout conditions under which the transcribed binding methods are correct.",
    note="f64 only; agreement is exact for discrete observables and 2-4 units of 2^-10 for real-valued ones; randomised estimators (k-means, SVC) are not compared.",
    technique="TLA+ ADT semantics + layout model checked by TLC; TLC trace validation of per-back-end op-programs and of cross-back-end agreement events")

E["C07"] = dict(
    level="exploration", ref="DESIGN.md §3 C07",
    text="Coarse (exploration): the first-order optimality conditions of OLS (X'r = 0, sum r = 0) and ridge (raw: X'r = alpha w, b = 0; standardised: n (X_j - mu_j)'r = alpha w_j V_j / n, no square root), solver agreement and the predict identity are decided by TLC as fixed-point polynomial identities (2^-12..2^-4, tolerance computed in the spec) on every recorded fit of seeded integer problems n<=24, p<=6 (QR/SVD/Cholesky, f64 plus coarse f32); a one-regressor closed-form design model shows the predicates accept the rounded exact answer and reject a 16-unit perturbation.",
    note="Finer accuracy, larger sizes, f32 standardised ridge and f32 solver agreement are not covered; the f32 tolerance is norm-wise. A sample of fits also goes through the ndarray bindings with column-major X and negatively strided y.",
    technique=TECH_B)

E["C08"] = dict(
    level="exploration", ref="DESIGN.md §3 C08",
    text="Coarse and partial (exploration): the Lasso validation table is decided exactly (Err expected / never panic / never hang, under a watchdog); intercept and predict identities; near-optimality as necessary coordinate-probe conditions on the stated objective evaluated in the spec, and a two-near-minimisers-are-close relation for the target-shift and l1_ratio = 1 clauses; a one-regressor soft-threshold design model checks the predicates (Sound / Sharp / Close).",
    note="Near-optimality 'to tol' itself is not proved: the coordinate probes are necessary conditions. Resolution 2^-12; n<=20, p<=6 (plus +-1 ladders to 257/513 rows); max_iter in {1, 2, 10^6, usize::MAX/2, usize::MAX} is exercised (tiny budgets only for 'returns or Err, never panics'). Elastic net is judged on all target means; near-optimality is also checked on exact 2^+-10 / 2^-20 rescalings.",
    technique=TECH_B)

E["C09"] = dict(
    level="model_checking", ref="DESIGN.md §3 C09",
    text="Model checking of the L-BFGS control structure (LBFGSModel: optimize / update_state / two_loops / assess_convergence / update_hessian / Backtracking::search, one action per branch; Monotone, Bounded, NoPanic, HistoryOK) and of the logistic contracts; trace validation of the real optimiser on integer SPD quadratics through exact projections (dense rank of f, binary exponent of the gradient norm: Monotone, Budget, Terminates, Reduced) and of LogisticRegression fits (labels and arg-max exactly; stationarity and 'final objective <= starting objective' through integer enclosures of exp and ln whose tables are verified by TLC, to an enclosure width of about 1 % of the starting gradient).",
    note="Partial: 'negligible gradient' is decided coarsely (2^-8 of the start plus the enclosure tolerance), Reduced demands 2^10; fits outside the 32-bit budget are counted, not judged; f32 not exercised.",
    technique="TLA+ design model plus predicates checked by TLC; ndjson traces of real runs consumed by *Trace.tla with the same predicates; exp/ln as verified integer enclosures inside the spec")

E["C14"] = dict(
    level="exploration", ref="DESIGN.md §3 C14",
    text="Coarse (exploration): orthonormality (sigma^2-metric in correlation mode, no square root), the affine map against exactly centred data, zero means, decorrelation, ordering, the eigen-equation of the exact rational covariance, and captured variance equal to the top-k eigenvalue sum of the validated full fit are decided by TLC on every recorded fit for every k in both modes and both code paths (m<=40, p<=8); truncated SVD: orthonormal basis, linear map, Frobenius optimum, k = p rejected; a rational-axes design model checks the predicates (Sound / Sharp).",
    note="Resolution 2^-10..2^-4; the eigen-equation is explicit only in covariance mode; constant columns in correlation mode are unconstrained; no spec->impl replay. Invariance families: per-column offsets 2^20..2^30 and exact power-of-two column rescaling (per column in correlation mode, common in covariance mode).",
    technique=TECH_B)


def main():
    props = [json.loads(l) for l in open(os.path.join(VERIF, "properties.jsonl"))]
    checks = []
    for p in props:
        pid = p["id"]
        if pid not in E:
            continue
        e = E[pid]
        checks.append({
            "property_id": pid,
            "quick_cmd": "bin/vcheck %s quick" % pid,
            "thorough_cmd": "bin/vcheck %s thorough" % pid,
            "evidence_file": "evidence/%s.json" % pid,
            "replay_cmd_template": "bin/vcheck %s --replay {path}" % pid,
            "engine": "vcheck",
            "level_claimed": {"category": e["level"], "text": e["text"] + COMMON_TEXT, "design_ref": e["ref"]},
            "level_note": e["note"],
            "technique": e["technique"],
        })
    na = [{"property_id": p["id"], "reason": NA.get(p["id"], "machinery not finished (build in progress, see DESIGN.md §7)")}
          for p in props if p["id"] not in E]
    man = {
        "version": 1,
        "setup_cmd": "cd /verif/harness && CARGO_NET_OFFLINE=true cargo build --release --offline --workspace",
        "hooks": {
            "guard": "--cfg smartcore_verif",
            "enable": "the harness workspace's .cargo/config.toml passes --cfg smartcore_verif in rustflags; only harness builds see it",
            "baseline_off_cmd": "cd /repo && (cargo nextest run --workspace --no-fail-fast --offline || cargo test --workspace --no-fail-fast --offline)",
            "source_commits": HOOK_COMMITS,
            "add_only": True,
        },
        "engines": [{
            "name": "vcheck", "path": "bin/vcheck", "serves_properties": [c["property_id"] for c in checks],
            "kind_free_text": "python driver: a cargo-built Rust harness (one crate per property, rebuilt against /repo's working tree) records events from the real code; TLC model-checks TLA+ design models and validates the recorded events against *Trace.tla specifications; tlapm for one unbounded lemma"}],
        "checks": checks,
        "not_applicable": na,
        "notes": "See DESIGN.md. Exit 2 = tool error / vacuous run, never a violation. Known findings: known_findings/CNN.json (KNOWN-FINDING lines, exit 0).",
    }
    json.dump(man, open(os.path.join(VERIF, "MANIFEST.json"), "w"), indent=1)
    print("MANIFEST.json: %d checks, %d not_applicable" % (len(checks), len(na)))


HOOK_COMMITS = ["a9ae94c"]
# what every check gained after the fourth and fifth rounds of seeded regressions (DESIGN.md §10 last part, §12)
COMMON_TEXT = (" The recorded executions additionally cover a size ladder (63..1025 rows and a few thousand, for training sets and for "
               "single batch calls), deep-structure, multi-scale and adversarial-order families, special float values (-0.0, adjacent "
               "floats, T::MAX, +-inf where valid), arbitrary float label sets carried as order-preserving codes, valid extreme "
               "parameter values, and both the inherent and the api-trait entry points; each such class has a must-hit counter "
               "(a run that does not produce it is vacuous and exits 2).")
NA = {}

if __name__ == "__main__":
    main()
