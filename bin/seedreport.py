#!/usr/bin/env python3
"""seedreport.py — regenerates seeded/REPORT.md from seeded/*/meta.json (which check caught which
seeded regression, as recorded by `bin/seedcheck run`)."""
import json, os
V = os.path.dirname(os.path.dirname(os.path.abspath(__file__)))
S = os.path.join(V, "seeded")
rows = []
for sid in sorted(os.listdir(S)):
    mp = os.path.join(S, sid, "meta.json")
    if not os.path.exists(mp):
        continue
    m = json.load(open(mp))
    cr = m.get("check_results", {})
    res = []
    for k in sorted(cr):
        r = cr[k]
        res.append("%s: %s%s" % (k, r["verdict"], (" (" + r["first"].replace("what: ", "").split(" [")[0][:90] + ")") if r.get("first") and r["verdict"] == "caught" else ""))
    note = m.get("note", "")
    rows.append((sid, m["breaks_property"], m.get("summary", "").replace("|", "/").replace("\n", " ")[:260],
                 m.get("needs_to_manifest", "").replace("|", "/").replace("\n", " ")[:260], "; ".join(res) or "not run", note))
with open(os.path.join(S, "REPORT.md"), "w") as f:
    f.write("# Seeded regressions and the checks that catch them\n\n")
    f.write("Each was produced by an independent sub-agent that saw only the property text and a scratch worktree, then\n"
            "confirmed by `bin/seedcheck confirm` (applies, compiles with default and all features, existing suite passes,\n"
            "demonstration fails with it and passes without it). `Cnn-mK` = round 1, `Cnn-nK` = round 2 (cooperating sites,\n"
            "multi-step sequences, rare paths), `Cnn-rK` = round 3 (other clauses / helpers), `Cnn-qK` = round 4 (size thresholds,\n"
            "deep structures, orders, special floats), `Cnn-sK` = round 5, `Cnn-tK` = round 6 and `Cnn-uK` = round 7 (held out: first-run figures are in DESIGN.md §12; this\n"
            "table is after strengthening). Results are from `bin/seedcheck run` (quick tier, through VERIF_REPO). Not caught:\n"
            "C09-m1 and C18-s2 no longer manifest on the repaired tree (their own demonstrations pass), C19-q2 is outside the domain.\n\n")
    caught = sum(1 for r in rows if " caught" in r[4] or ": caught" in r[4])
    f.write("%d seeded regressions; %d caught by at least one check at quick tier.\n\n" % (len(rows), caught))
    f.write("| id | breaks | change | needs to manifest | result |\n|---|---|---|---|---|\n")
    for r in rows:
        f.write("| %s | %s | %s | %s | %s%s |\n" % (r[0], r[1], r[2], r[3], r[4], (" — " + r[5]) if r[5] else ""))
print("wrote seeded/REPORT.md (%d rows, %d caught)" % (len(rows), caught))
