"""Shared driver library for /verif/bin/vcheck.

A check = build the harness from /repo's working tree, let the harness drive the real code
and record events, let TLC (a) model-check the design models and (b) validate the recorded
events against the TLA+ specification, turn every failing event into a replay artefact and a
VIOLATION line (unless it is a listed known finding), and write the evidence file.

Exit codes: 0 property held on everything explored; 1 violation (with VIOLATION line);
2 tool error / timeout / vacuous run (never reported as a violation of the code).
"""
import hashlib
import json
import os
import re
import shutil
import subprocess
import sys
import time

VERIF = os.path.dirname(os.path.dirname(os.path.abspath(__file__)))
HARNESS_DIR = os.path.join(VERIF, "harness")
SPEC = os.path.join(VERIF, "spec")
TLA_JAR = "/opt/veriftools/tla/tla2tools.jar"
TLA_CP = TLA_JAR + ":/opt/veriftools/tla/CommunityModules-deps.jar"


class ToolError(Exception):
    pass


def log(msg):
    print(msg, flush=True)


class Ctx:
    def __init__(self, pid, tier, seed, level):
        self.pid = pid
        self.tier = tier
        self.seed = seed
        self.level = level
        self.crate = pid.lower()
        # Development aid: VERIF_REPO=/tmp/some-worktree runs the check against a scratch copy
        # of the repository (for trying mutants without touching /repo).  A private copy of the
        # harness workspace with the path dependency rewritten is built under work/; evidence
        # goes to the work directory.  Registered checks never set it.
        self.repo = os.environ.get("VERIF_REPO", "/repo").rstrip("/") or "/repo"
        self.alt = self.repo != "/repo"
        self.harness_dir = HARNESS_DIR
        if self.alt:
            tagh = hashlib.sha1(self.repo.encode()).hexdigest()[:8]
            self.harness_dir = os.path.join(VERIF, "work", "alt-harness-" + tagh)
        self.t0 = time.time()
        _alt = os.environ.get("VERIF_REPO", "/repo").rstrip("/")
        self.work = os.path.join(VERIF, "work", "%s-%s%s" % (pid, tier,
                                 "" if _alt in ("", "/repo") else "-alt-" + hashlib.sha1(_alt.encode()).hexdigest()[:8]))
        shutil.rmtree(self.work, ignore_errors=True)
        os.makedirs(self.work, exist_ok=True)
        self.replay_dir = os.path.join(VERIF, "replays", pid)
        if os.environ.get("VERIF_REPO", "/repo").rstrip("/") not in ("", "/repo"):
            self.replay_dir = os.path.join(self.work, "replays")
        if os.path.isdir(self.replay_dir):
            for fn in os.listdir(self.replay_dir):
                if fn.startswith(tier + "-"):
                    os.remove(os.path.join(self.replay_dir, fn))
        self.violations = []      # (key, what, replay_path)
        self.known_hits = []      # (key, what)
        self.mc_runs = []         # dicts
        self.trace_runs = []      # dicts
        self.states = 0
        self.transitions = 0
        self.traces = 0
        self.evaluations = 0
        self.samples = []
        self.extra = {}
        self.assumptions = []
        self.known = load_known(pid)
        self.drift = 0
        self.vacuous = []

    @property
    def thorough(self):
        return self.tier == "thorough"

    def path(self, name):
        return os.path.join(self.work, name)

    # ------------------------------------------------------------------ harness
    def build(self, crate=None):
        crate = crate or self.crate
        t = time.time()
        env = dict(os.environ)
        env["CARGO_NET_OFFLINE"] = "true"
        if self.alt:
            os.makedirs(self.harness_dir, exist_ok=True)
            subprocess.run(["rsync", "-a", "--delete", "--exclude", "target", HARNESS_DIR + "/", self.harness_dir + "/"], check=True)
            ct = os.path.join(self.harness_dir, "Cargo.toml")
            txt = open(ct).read().replace('path = "/repo"', 'path = "%s"' % self.repo)
            open(ct, "w").write(txt)
        lock_src = "/repo/Cargo.lock"
        lock_dst = os.path.join(self.harness_dir, "Cargo.lock")
        if not os.path.exists(lock_dst) and os.path.exists(lock_src):
            shutil.copy(lock_src, lock_dst)
        for attempt in range(6):
            p = subprocess.run(["cargo", "build", "--release", "--offline", "-p", crate], cwd=self.harness_dir,
                               env=env, stdout=subprocess.PIPE, stderr=subprocess.STDOUT, text=True)
            if p.returncode != 0 and "failed to load manifest for workspace member" in p.stdout and attempt < 5:
                time.sleep(10)   # a sibling crate directory is being created right now
                continue
            break
        if p.returncode != 0:
            log(p.stdout[-6000:])
            raise ToolError("cargo build of the harness failed")
        log("[build] harness crate %s rebuilt from %s working tree in %.1fs" % (crate, self.repo, time.time() - t))

    def harness(self, *args, timeout=3600, check=True, crate=None):
        crate = crate or self.crate
        env = dict(os.environ)
        env["VERIF_SEED"] = str(self.seed)
        env["VERIF_TIER"] = self.tier
        t = time.time()
        try:
            p = subprocess.run([os.path.join(self.harness_dir, "target", "release", crate)] + [str(a) for a in args], env=env,
                               stdout=subprocess.PIPE, stderr=subprocess.PIPE, text=True,
                               timeout=timeout)
        except subprocess.TimeoutExpired:
            raise ToolError("harness timed out: %s" % (args,))
        if check and p.returncode != 0:
            log(p.stdout[-2000:])
            log(p.stderr[-4000:])
            raise ToolError("harness failed (%d): %s" % (p.returncode, args))
        log("[harness] %s -> %s (%.1fs)" % (" ".join(str(a) for a in args), p.stdout.strip()[-200:], time.time() - t))
        return p

    # ------------------------------------------------------------------ TLC
    def _tlc(self, spec, cfg, workers, timeout, extra_env=None, java_opts="", simulate=None, tag="tlc",
             coverage=True, heap="4g"):
        meta = self.path("meta-" + tag)
        shutil.rmtree(meta, ignore_errors=True)
        os.makedirs(meta, exist_ok=True)
        env = dict(os.environ)
        if extra_env:
            env.update(extra_env)
        env["JAVA_TOOL_OPTIONS"] = ("-Xss1g " + java_opts).strip()
        cmd = ["timeout", str(int(timeout)), "java", "-XX:+UseParallelGC", "-Xmx" + heap, "-cp", TLA_CP, "tlc2.TLC",
               "-workers", str(workers), "-metadir", meta, "-cleanup", "-noGenerateSpecTE"]
        if coverage:
            cmd += ["-coverage", "1"]
        if simulate:
            cmd += ["-simulate", simulate]
        cmd += ["-config", cfg, spec]
        t = time.time()
        outp = self.path(tag + ".out")
        with open(outp, "w") as f:
            p = subprocess.run(cmd, cwd=os.path.dirname(spec), env=env, stdout=f, stderr=subprocess.STDOUT)
        dt = time.time() - t
        shutil.rmtree(meta, ignore_errors=True)
        text = open(outp, errors="replace").read()
        if p.returncode == 124:
            raise ToolError("TLC timed out after %ss on %s" % (timeout, os.path.basename(spec)))
        return p.returncode, text, dt

    def tlc_mc(self, spec_rel, cfg_rel, workers=8, timeout=900, must_cover=(), tag=None, heap="4g",
               keep_prints=False):
        """Model-check a design model.  An invariant violation here is an error of the
        model / predicate (tool error), never a violation of the code."""
        spec = os.path.join(SPEC, spec_rel)
        cfg = os.path.join(SPEC, cfg_rel)
        tag = tag or ("mc-" + os.path.basename(cfg_rel).replace(".cfg", ""))
        rc, text, dt = self._tlc(spec, cfg, workers, timeout, tag=tag, heap=heap)
        m = re.search(r"(\d+) states generated, (\d+) distinct states found, (\d+) states left", text)
        if "Model checking completed. No error has been found." not in text or not m:
            log(tail_errors(text))
            raise ToolError("design model %s / %s did not pass TLC (rc=%d): the model or the predicate is wrong"
                            % (spec_rel, cfg_rel, rc))
        gen, dist = int(m.group(1)), int(m.group(2))
        cov = {}
        for mm in re.finditer(r"^<(\w+) line \d+, col \d+ to line \d+, col \d+ of module \w+(?: \([\d ]+\))?>: (\d+):(\d+)", text, re.M):
            cov[mm.group(1)] = cov.get(mm.group(1), 0) + int(mm.group(3))
        for a in must_cover:
            if cov.get(a, 0) == 0:
                raise ToolError("vacuous model run: action %s of %s never taken" % (a, spec_rel))
        run = {"spec": spec_rel, "cfg": cfg_rel, "generated": gen, "distinct": dist,
               "actions": cov, "wall_s": round(dt, 1)}
        self.mc_runs.append(run)
        self.states += dist
        self.transitions += gen
        log("[tlc-mc] %s %s: %d generated, %d distinct, actions %s (%.1fs)" % (spec_rel, cfg_rel, gen, dist, cov, dt))
        if keep_prints:
            run_prints = parse_prints(text)
            return run, run_prints
        return run

    def tlc_trace(self, spec_rel, cfg_rel, trace_file, timeout=1800, must_hit=(), tag=None, heap="4g",
                  env=None):
        """Validate a recorded ndjson trace against a *Trace.tla spec.  Returns (verdict, bads)
        where bads = [(line, run, ev, clause)]."""
        spec = os.path.join(SPEC, spec_rel)
        cfg = os.path.join(SPEC, cfg_rel)
        tag = tag or ("trace-" + os.path.basename(trace_file).replace(".ndjson", ""))
        nlines = sum(1 for _ in open(trace_file))
        e = {"TRACE": trace_file}
        if env:
            e.update(env)
        rc, text, dt = self._tlc(spec, cfg, 1, timeout, extra_env=e, tag=tag, coverage=False, heap=heap)
        prints = parse_prints(text)
        verdicts = [p for p in prints if p and p[0] == "VERDICT"]
        bads = [p for p in prints if p and p[0] == "BAD"]
        if "Model checking completed. No error has been found." not in text or len(verdicts) != 1:
            log(tail_errors(text))
            raise ToolError("trace validation %s did not run to completion (rc=%d, verdicts=%d)"
                            % (spec_rel, rc, len(verdicts)))
        v = json.loads(verdicts[0][1])
        if v.get("consumed") != nlines:
            raise ToolError("trace validation consumed %s of %d events" % (v.get("consumed"), nlines))
        if v.get("bad") != len(bads):
            raise ToolError("verdict says %s bad events, %d BAD lines parsed" % (v.get("bad"), len(bads)))
        hits = v.get("hits", {})
        for h in must_hit:
            if hits.get(h, 0) == 0:
                # deferred to finish(): a vacuity failure must not mask violations found in the same run
                self.vacuous.append("clause %s never exercised in %s" % (h, os.path.basename(trace_file)))
        self.trace_runs.append({"spec": spec_rel, "trace": os.path.basename(trace_file), "events": nlines,
                                "bad": len(bads), "hits": hits, "wall_s": round(dt, 1)})
        self.states += nlines + 1
        self.transitions += nlines
        log("[tlc-trace] %s on %s: %d events, %d bad, hits %s (%.1fs)" % (spec_rel, os.path.basename(trace_file), nlines, len(bads), hits, dt))
        return v, [(b[1], b[2], b[3], b[4]) for b in bads]

    def tlapm(self, spec_rel, timeout=600):
        """Check a TLAPS proof module; returns (obligations, proved).  A failure is a tool error."""
        spec = os.path.join(SPEC, spec_rel)
        d = os.path.dirname(spec)
        cache = self.path("tlacache-" + os.path.basename(spec_rel))
        t = time.time()
        p = subprocess.run(["timeout", str(timeout), "tlapm", "--cleanfp", "--threads", "4", "--cache-dir", cache, os.path.basename(spec)],
                           cwd=d, stdout=subprocess.PIPE, stderr=subprocess.STDOUT, text=True)
        m = re.search(r"All (\d+) obligations? proved", p.stdout)
        shutil.rmtree(cache, ignore_errors=True)
        if p.returncode != 0 or not m:
            log(p.stdout[-3000:])
            raise ToolError("tlapm did not prove %s" % spec_rel)
        n = int(m.group(1))
        self.extra.setdefault("tlaps", []).append({"module": spec_rel, "obligations": n, "discharged": n,
                                                   "wall_s": round(time.time() - t, 1)})
        log("[tlapm] %s: all %d obligations proved (%.1fs)" % (spec_rel, n, time.time() - t))
        return n, n

    # ------------------------------------------------------------------ verdicts
    def report(self, key, what, events):
        """A property predicate failed on something the real code returned."""
        for k in self.known:
            if k.get("status") == "known" and k.get("key") == key:
                if key not in [x[0] for x in self.known_hits]:
                    log("KNOWN-FINDING: property=%s %s [%s]" % (self.pid, k.get("what", what), key))
                self.known_hits.append((key, what))
                return
        if len(self.violations) >= 25:
            self.violations.append((key, what, None))
            return
        os.makedirs(self.replay_dir, exist_ok=True)
        h = hashlib.sha1((key + what + json.dumps(events, sort_keys=True)).encode()).hexdigest()[:10]
        path = os.path.join(self.replay_dir, "%s-%s.json" % (self.tier, h))
        with open(path, "w") as f:
            json.dump({"property": self.pid, "key": key, "what": what, "seed": self.seed,
                       "tier": self.tier, "events": events}, f, indent=1)
        self.violations.append((key, what, path))
        if True:
            log("VIOLATION property=%s replay=%s" % (self.pid, path))
            log("  what: %s [%s]" % (what, key))

    def finish(self, rule, distinct_nontrivial, exhaustive=False, explanation=None):
        cov = {
            "evaluations": int(self.evaluations),
            "distinct_nontrivial": int(distinct_nontrivial),
            "rule": rule,
            "samples": self.samples[:6] if self.samples else ["(no sample recorded)"],
            "states": int(max(self.states, 1)),
            "transitions": int(max(self.transitions, 1)),
            "traces_validated_against_impl": int(self.traces),
            "exhaustive": bool(exhaustive),
            "model_checking_runs": self.mc_runs,
            "trace_validation_runs": self.trace_runs,
            "known_findings_hit": sorted(set(k for k, _ in self.known_hits)),
            "model_drift": self.drift,
            "trusted_base": ["TLC 1.8.0 + CommunityModules Json/IOUtils", "harness projections (quantise, rank, exponent, serde dumps)",
                             "rustc/cargo", "bin/vlib.py output parsing"],
        }
        if explanation:
            cov["explanation"] = explanation
        cov.update(self.extra)
        ev = {
            "property_id": self.pid,
            "tier": self.tier,
            "seed": int(self.seed),
            "level": self.level,
            "coverage": cov,
            "assumptions": self.assumptions,
            "wall_s": round(time.time() - self.t0, 1),
            "violations": len(self.violations),
        }
        os.makedirs(os.path.join(VERIF, "evidence"), exist_ok=True)
        evpath = os.path.join(VERIF, "evidence", self.pid + ".json")
        if self.alt:
            evpath = self.path("evidence-" + self.pid + ".json")
        with open(evpath, "w") as f:
            json.dump(ev, f, indent=1)
        log("[evidence] evidence/%s.json written: evaluations=%d nontrivial=%d states=%d traces=%d violations=%d known=%d wall=%.0fs"
            % (self.pid, self.evaluations, distinct_nontrivial, self.states, self.traces, len(self.violations),
               len(set(k for k, _ in self.known_hits)), time.time() - self.t0))
        if self.vacuous and not self.violations:
            raise ToolError("vacuous trace run: " + "; ".join(self.vacuous))
        if self.violations:
            if len(self.violations) > 25:
                log("(%d further violating cases not listed individually)" % (len(self.violations) - 25))
            return 1
        return 0


def load_known(pid):
    out = []
    for p in (os.path.join(VERIF, "known_findings.json"), os.path.join(VERIF, "known_findings", pid + ".json")):
        if not os.path.exists(p):
            continue
        try:
            d = json.load(open(p))
        except Exception as e:  # noqa
            raise ToolError("%s unreadable: %s" % (p, e))
        out += [k for k in d.get("findings", []) if k.get("property") == pid]
    return out


def parse_prints(text):
    """PrintT tuples of the form <<"TAG", ...>> printed by TLC (possibly wrapped)."""
    out = []
    for m in re.finditer(r'^<<"(VERDICT|BAD|REPLAY|INFO)",(.*?)>>$', text, re.M | re.S):
        tag = m.group(1)
        body = m.group(2).strip()
        if tag in ("VERDICT", "REPLAY", "INFO"):
            # single JSON string argument, TLA+-escaped
            s = body.strip()
            if s.startswith('"') and s.endswith('"'):
                s = s[1:-1]
            s = s.replace("\n", "")
            s = s.replace('\\"', '"').replace("\\\\", "\\")
            out.append((tag, s))
        else:
            parts = [x.strip() for x in body.replace("\n", " ").split(",")]
            vals = []
            for x in parts:
                if x.startswith('"'):
                    vals.append(x.strip('"'))
                else:
                    try:
                        vals.append(int(x))
                    except ValueError:
                        vals.append(x)
            out.append(tuple([tag] + vals))
    return out


def tail_errors(text):
    lines = text.splitlines()
    idx = [i for i, l in enumerate(lines) if "Error" in l or "error" in l or "Exception" in l]
    if idx:
        a = max(0, idx[0] - 2)
        return "\n".join(lines[a:a + 60])
    return "\n".join(lines[-40:])


def read_ndjson(path):
    with open(path) as f:
        return [json.loads(l) for l in f if l.strip()]


def write_ndjson(path, events):
    with open(path, "w") as f:
        for e in events:
            f.write(json.dumps(e, separators=(",", ":")) + "\n")


def events_of_run(events, run):
    return [e for e in events if e.get("run") == run]


def digest(obj):
    return hashlib.sha1(json.dumps(obj, sort_keys=True).encode()).hexdigest()
