#!/usr/bin/env python3
"""markfixed.py CNN <substring of key> <commit> — turn a known finding into a fixed entry.
A fixed entry suppresses nothing; it records `fixed: property=<id> <commit> <what failed>`."""
import json, sys, os
pid, sub, commit = sys.argv[1], sys.argv[2], sys.argv[3]
p = os.path.join(os.path.dirname(os.path.dirname(os.path.abspath(__file__))), "known_findings", pid + ".json")
d = json.load(open(p))
n = 0
for f in d["findings"]:
    if sub in f["key"] and f.get("status") == "known":
        f["status"] = "fixed"
        f["commit"] = commit
        f["record"] = "fixed: property=%s %s %s" % (pid, commit, f["what"][:300])
        n += 1
json.dump(d, open(p, "w"), indent=1)
print("marked %d entries fixed in %s" % (n, p))
